// C08 — serializeMsgPack emits one conforming MessagePack object equal to the document.
#include <ArduinoJson.h>

#include <sstream>

#include "../engine/runner.hpp"
#include "../gen/values.hpp"
#include "../gen/history_run.hpp"
#include "../lib/build.hpp"
#include "../lib/observe.hpp"
#include "../ref/json_ref.hpp"
#include "../ref/msgpack_ref.hpp"

using namespace ArduinoJson;
using ref::Val;

struct CustomWriter {
  std::string out;
  size_t write(uint8_t c) {
    out += (char)c;
    return 1;
  }
  size_t write(const uint8_t* s, size_t n) {
    out.append(reinterpret_cast<const char*>(s), n);
    return n;
  }
};
#if ARDUINOJSON_ENABLE_ARDUINO_PRINT
struct MyPrint : Print {
  std::string out;
  size_t write(uint8_t c) override {
    out += (char)c;
    return 1;
  }
  size_t write(const uint8_t* s, size_t n) override {
    out.append(reinterpret_cast<const char*>(s), n);
    return n;
  }
};
#endif

// decoded (reference decoder) vs observed document
static bool num_c08(const Val& w /*observed*/, const Val& g /*decoded*/) {
  if (w.k == Val::Int) return g.k == Val::Int && w.neg == g.neg && w.mag == g.mag;
  // stored float: float32/float64 bit-exact, or an integer of the same value when integral
  if (g.k == Val::Flt) return ref::same_double_exact(w.d, g.d) || (std::isnan(w.d) && std::isnan(g.d));
  if (std::isfinite(w.d) && w.d == std::trunc(w.d)) return (long double)w.d == g.as_ld();
  return false;
}

static bool near_boundary(const Val& v) {
  bool b = false;
  v.walk([&](const Val& n) {
    auto close = [](uint64_t x, uint64_t y) { return x + 1 >= y && x <= y + 1; };
    if (n.k == Val::Int) {
      static const uint64_t P[] = {127, 128, 255, 256, 65535, 65536, 4294967295ull, 4294967296ull, 1ull << 63};
      static const uint64_t N[] = {32, 33, 128, 129, 32768, 32769, 2147483648ull, 2147483649ull, 1ull << 63};
      for (uint64_t p : (n.neg ? N : P))
        if (close(n.mag, p)) b = true;
    }
    if (n.k == Val::Str) {
      for (uint64_t p : {31ull, 32ull, 255ull, 256ull, 65535ull, 65536ull})
        if (close(n.s.size(), p)) b = true;
    }
    size_t cnt = n.k == Val::Arr ? n.a.size() : n.k == Val::Obj ? n.o.size() : 1000;
    for (uint64_t p : {15ull, 16ull, 65535ull, 65536ull})
      if (close(cnt, p)) b = true;
  });
  return b;
}

static void check_bounded(cs::Ctx& ctx, JsonVariantConst v, const std::string& T, size_t cap, bool exact_block) {
  const size_t G = exact_block ? 0 : 32;
  unsigned char* block = static_cast<unsigned char*>(malloc(G + cap + G ? G + cap + G : 1));
  memset(block, 0xA5, G + cap + G);
  size_t r = serializeMsgPack(v, block + G, cap);
  ctx.executions++;
  size_t want = cap < T.size() ? cap : T.size();
  std::string problem;
  if (r != want) problem = "returned " + std::to_string(r) + ", expected " + std::to_string(want);
  else if (memcmp(block + G, T.data(), want) != 0) problem = "stored bytes are not the prefix";
  else {
    for (size_t i = want; i < cap && problem.empty(); i++)
      if (block[G + i] != 0xA5) problem = "byte beyond the prefix was written";
    for (size_t i = 0; i < G && problem.empty(); i++)
      if (block[i] != 0xA5 || block[G + cap + i] != 0xA5) problem = "byte outside the buffer was written";
  }
  free(block);
  if (!problem.empty()) ctx.fail("bounded-buffer", "capacity " + std::to_string(cap) + " length " + std::to_string(T.size()) + ": " + problem);
}

static void check_document(cs::Ctx& ctx, cs::Src* s, JsonDocument& doc, bool all_caps) {
  JsonVariantConst v = doc.as<JsonVariantConst>();
  lib::ObserveOpts oo;
  oo.cross_checks = doc.size() < 200;
  Val o = lib::observe(v, oo);
  std::string T;
  size_t r = serializeMsgPack(v, T);
  size_t m = measureMsgPack(v);
  ctx.executions++;
  ctx.current_rendering += "\nmsgpack: " + cs::hex_bytes(T, 300);
  if (r != T.size() || m != T.size())
    ctx.fail("count", "returned " + std::to_string(r) + ", measureMsgPack " + std::to_string(m) + ", bytes produced " + std::to_string(T.size()));
  {
    std::ostringstream os;
    size_t r2 = serializeMsgPack(v, os);
    if (os.str() != T || r2 != T.size()) ctx.fail("ostream", "std::ostream received different bytes or count");
    {
      std::ostringstream osf;  // formatting state must not leak into the bytes
      osf.width(4);
      osf.fill('*');
      osf << std::hex << std::showbase;
      r2 = serializeMsgPack(v, osf);
      if (osf.str() != T || r2 != T.size()) ctx.fail("ostream", "std::ostream with a field width received different bytes or count");
    }
    CustomWriter w;
    r2 = serializeMsgPack(v, w);
    if (w.out != T || r2 != T.size()) ctx.fail("custom-writer", "custom writer received different bytes or count");
    {
      struct BudgetWriter {
        std::string out;
        size_t budget;
        size_t write(uint8_t c) {
          if (out.size() >= budget) return 0;
          out += (char)c;
          return 1;
        }
        size_t write(const uint8_t* p, size_t n) {
          size_t room = budget - out.size();
          if (n > room) n = room;
          out.append(reinterpret_cast<const char*>(p), n);
          return n;
        }
      } bw;
      bw.budget = T.size() / 2 + (T.size() % 3);
      r2 = serializeMsgPack(v, bw);
      size_t want = bw.budget < T.size() ? bw.budget : T.size();
      if (bw.out != T.substr(0, want) || r2 != want) ctx.fail("custom-writer", "writer with a byte budget: stored bytes or returned count wrong");
      JsonVariantConst unbound;
      std::string tu;
      if (serializeMsgPack(unbound, tu) != 1 || tu != "\xC0" || measureMsgPack(unbound) != 1) ctx.fail("unbound-source", "unbound source does not serialize/measure as nil");
    }
#if ARDUINOJSON_ENABLE_ARDUINO_PRINT
    MyPrint p;
    r2 = serializeMsgPack(v, p);
    if (p.out != T || r2 != T.size()) ctx.fail("arduino-print", "Print received different bytes or count");
    ctx.label("arduino-print");
#endif
  }
  mref::DResult d = mref::decode(T, 100000);
  if (d.status != mref::D_OK) ctx.fail("not-msgpack", "reference decoder rejects the output (status " + std::to_string(d.status) + ")");
  if (d.consumed != T.size()) ctx.fail("not-one-object", "output is longer than one object: " + std::to_string(d.consumed) + " of " + std::to_string(T.size()) + " bytes");
  std::string why;
  if (!ref::same(o, d.value, num_c08, &why)) ctx.fail("value-differs", "decoded value differs from the document: " + why);
  size_t len = T.size();
  if (all_caps && len <= 96) {
    for (size_t cap = 0; cap <= len + 2; cap++) check_bounded(ctx, v, T, cap, cap & 1);
  } else {
    size_t caps[] = {0, 1, len >= 2 ? len - 2 : 0, len >= 1 ? len - 1 : 0, len, len + 1, len + 2};
    for (size_t cap : caps) check_bounded(ctx, v, T, cap, cap & 1);
    if (s)
      for (int i = 0; i < 8; i++) check_bounded(ctx, v, T, (size_t)s->below(len + 3), i & 1);
  }
}

static Val boundary_int(cs::Src& s) {
  static const uint64_t P[] = {127, 128, 255, 256, 65535, 65536, 4294967295ull, 4294967296ull, 1ull << 63, UINT64_MAX, 0};
  static const uint64_t N[] = {32, 33, 128, 129, 32768, 32769, 2147483648ull, 2147483649ull, 1ull << 63};
  if (s.coin()) {
    uint64_t p = P[s.below(sizeof P / sizeof P[0])];
    int64_t off = s.irange(-1, 1);
    if (p == UINT64_MAX && off > 0) off = 0;
    if (p == 0 && off < 0) off = 0;
    return Val::uint(p + (uint64_t)off);
  }
  uint64_t p = N[s.below(sizeof N / sizeof N[0])];
  int64_t off = s.irange(-1, 1);
  if (p == (1ull << 63) && off > 0) off = 0;
  return Val::negmag(p + (uint64_t)off);
}

static void boundarize(cs::Src& s, Val& v, const gen::Opts& o) {
  // replace parts of a generated value by items at header boundaries
  if (v.k == Val::Int && s.coin()) v = boundary_int(s);
  else if (v.k == Val::Str && s.chance(1, 3)) {
    static const size_t L[] = {30, 31, 32, 33, 254, 255, 256, 257};
    size_t n = L[s.below(8)];
    std::string t;
    for (size_t i = 0; i < n; i++) t += (char)('a' + s.below(26));
    v.s = t;
  } else if (v.k == Val::Flt && s.chance(1, 3)) {
    static const double F[] = {0.0, -0.0, 1.0, -1.0, 16777216.0, 9223372036854775808.0, -9223372036854775808.0, 18446744073709551616.0,
                               1e10, 2147483648.0, -2147483649.0, 0.5, 4294967296.0, 1e19, 3.0e38, NAN, INFINITY, -INFINITY, 65536.0, -32.0, -33.0};
    v.d = F[s.below(sizeof F / sizeof F[0])];
  } else if (v.k == Val::Arr) {
    for (auto& e : v.a) boundarize(s, e, o);
    if (s.chance(1, 4)) {
      size_t n = 14 + (size_t)s.below(4);
      while (v.a.size() < n) v.a.push_back(gen::gen_scalar_value(s, o));
      v.a.resize(n);
    }
  } else if (v.k == Val::Obj) {
    for (auto& kv : v.o) boundarize(s, kv.second, o);
    if (s.chance(1, 4)) {
      size_t n = 14 + (size_t)s.below(4);
      while (v.o.size() < n) v.o.push_back({"k" + std::to_string(v.o.size()), gen::gen_scalar_value(s, o)});
      if (v.o.size() > n) v.o.resize(n);
    }
  }
}

static void add_binext(Val& v, cs::Src& s) {
  if (v.k == Val::Arr) {
    for (auto& e : v.a) add_binext(e, s);
    if (s.chance(1, 3)) {
      std::string data;
      static const size_t L[] = {0, 1, 2, 4, 8, 16, 17, 255, 256, 3, 5, 300};
      size_t n = L[s.below(12)];
      for (size_t i = 0; i < n; i++) data += (char)s.below(256);
      if (s.coin()) v.a.push_back(Val::raw(mref::bin_bytes(data, 0)));
      else v.a.push_back(Val::raw(mref::ext_bytes((int8_t)s.below(256), data, 0)));
    }
  } else if (v.k == Val::Obj) {
    for (auto& kv : v.o) add_binext(kv.second, s);
  }
}

static void run_case(cs::Src& s, cs::Ctx& ctx) {
  ctx.evaluations++;
#if !ARDUINOJSON_USE_LONG_LONG
  gen::clamp_int32() = true;  // LP64 host: keep integers within what a 32-bit-integer target can express
#endif
  if (s.chance(1, 5)) {
    // a document reached through a model-checked API history
    hist::Options ho;
    ho.ndocs = 1;
    ho.allow_alias_ops = false;
    ho.doc_level_ops = false;
    hist::Runner r(s, ctx, ho);
    r.init();
    size_t nops = 5 + (size_t)s.below(25);
    for (size_t i = 0; i < nops; i++) r.step();
    Val hv = r.m.docs[0].root;
    bool plain_raw = false;  // serialized() text is not MessagePack: only bin/ext raws are judged here
    hv.walk([&](const Val& n) {
      if (n.k == Val::Raw && (n.s.empty() || (unsigned char)n.s[0] != 0xC4)) plain_raw = true;
    });
    ctx.current_rendering = "history:" + r.log;
    if (!plain_raw) check_document(ctx, &s, *r.worlds[0]->docs[0], true);
    r.finish();
    ctx.label("doc-from-history");
    if (!plain_raw && near_boundary(hv)) ctx.nontrivial_str(ref::render(hv, 3000));
    else ctx.trivial++;
    return;
  }
  gen::Opts o;
  o.utf8_only = false;
  o.nonfinite = true;
  o.long_strings = true;
  o.top_container = s.chance(3, 4);
  Val v = gen::gen_value(s, o);
  boundarize(s, v, o);
  if (s.chance(1, 3)) add_binext(v, s);
  ctx.current_rendering = "value: " + ref::render(v);
  lib::Arena arena;
  JsonDocument doc;
  if (!lib::build(doc.to<JsonVariant>(), v, s, arena)) ctx.fail("build", "building the document failed");
  check_document(ctx, &s, doc, true);
  if (near_boundary(v)) ctx.nontrivial_str(ref::render(v, 3000));
  else ctx.trivial++;
  if (jref::has_raw(v)) ctx.label("has-bin-ext");
  if (jref::has_float(v)) ctx.label("has-float");
  if (ctx.want_sample() && v.nodes() >= 3) ctx.sample(ref::render(v, 300));
}

// large items: linked strings of 65535/65536/70000 bytes, copied 65535, containers of 65535/65536
static void sweep(cs::Ctx& ctx, uint64_t shard, uint64_t nshards) {
  std::vector<std::function<void()>> jobs;
  for (size_t n : {65534u, 65535u, 65536u, 70000u}) {
    jobs.push_back([&ctx, n]() {
      std::string big(n, 'x');
      JsonDocument doc;
      doc.add(big.c_str());  // linked: not capped by the string length size
      doc.add(1);
      ctx.current_rendering = "linked string of " + std::to_string(n) + " bytes";
      check_document(ctx, nullptr, doc, false);
    });
  }
  jobs.push_back([&ctx]() {
    std::string big(65535, 'y');
    JsonDocument doc;
    doc.set(big);
    ctx.current_rendering = "copied string of 65535 bytes";
    if (doc.overflowed()) return;
    check_document(ctx, nullptr, doc, false);
  });
  for (size_t n : {65535u, 65536u}) {
    jobs.push_back([&ctx, n]() {
      JsonDocument doc;
      JsonArray a = doc.to<JsonArray>();
      for (size_t i = 0; i < n; i++) a.add((int)(i & 0x7F));
      ctx.current_rendering = "array of " + std::to_string(n);
      if (doc.overflowed()) ctx.fail("build", "large array overflowed");
      check_document(ctx, nullptr, doc, false);
    });
    jobs.push_back([&ctx, n]() {
      // large object: built by decoding a reference encoding (member insertion by API is quadratic)
      Val v = Val::obj();
      for (size_t i = 0; i < n; i++) v.o.push_back({"k" + std::to_string(i), Val::uint(i & 0x7F)});
      mref::Widths w;
      mref::EncStats st;
      std::string mp;
      mref::encode(v, mp, w, st);
      JsonDocument doc;
      DeserializationError err = deserializeMsgPack(doc, mp.data(), mp.size());
      ctx.current_rendering = "object of " + std::to_string(n);
      if (err != DeserializationError::Ok) ctx.fail("build", std::string("large object could not be decoded: ") + err.c_str());
      check_document(ctx, nullptr, doc, false);
    });
  }
  for (size_t i = 0; i < jobs.size(); i++) {
    if (i % nshards != shard) continue;
    ctx.evaluations++;
    ctx.counted_nontrivial++;
    jobs[i]();
    ctx.label("large-item");
  }
  ctx.current_rendering.clear();
}

static void witness(const std::string& name, cs::Ctx& ctx) { ctx.fail("witness", "unknown witness " + name); }

static cs::PropDef PROP = {"C08", run_case, sweep, witness};
CS_MAIN(PROP)
