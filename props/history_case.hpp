// Shared by C04 and C19: the model-based history case (random and bounded-exhaustive).
#pragma once
#include <ArduinoJson.h>

#include "../engine/runner.hpp"
#include "../gen/history_run.hpp"
#include "known.hpp"

using namespace ArduinoJson;
using ref::Val;

static hist::Options base_options(cs::Ctx& ctx) {
  hist::Options o;
  o.ndocs = 2;
  o.allow_alias_ops = !ctx.is_known("alias_overlap");
  size_t maxlen = (size_t)ArduinoJson::detail::StringNode::maxLength;
  o.max_str = maxlen < 40 ? maxlen : 40;
  o.big_strings = maxlen > 300;
  // known finding KF-3 (shrink_burns_pool_ids): with few addressable pools every shrinkToFit() gives up
  // the unused slot ids of the last pool; histories are kept within what remains
  size_t max_slots = (size_t)ArduinoJson::detail::NULL_SLOT;
  if (max_slots < 70000) {
    if (max_slots < 300) o.max_nodes = 25;
    if (ctx.is_known("shrink_burns_pool_ids")) {
      long max_pools = (long)(max_slots / ARDUINOJSON_POOL_CAPACITY + (max_slots % ARDUINOJSON_POOL_CAPACITY ? 1 : 0));
      long needed = (long)((3 * o.max_nodes + 10 + ARDUINOJSON_POOL_CAPACITY - 1) / ARDUINOJSON_POOL_CAPACITY);
      long allowed = max_pools - needed - 1;
      o.max_shrinks = allowed < 0 ? 0 : allowed;
    }
  }
  return o;
}

// ---------------------------------------------------------------- bounded-exhaustive alphabet
static const int NSMALL = 26;
static void small_op(hist::Runner& r, int code) {
  using namespace hist;
  auto T = [&](int doc, int form, std::vector<Step> path = {}, int handle = -1) {
    Target t;
    t.doc = doc;
    t.form = form;
    t.path = path;
    t.handle = handle;
    return t;
  };
  auto I = [](uint64_t v) {
    Scalar sc;
    sc.k = Scalar::INT;
    sc.v = Val::uint(v);
    return sc;
  };
  auto S = [](const char* str, int kind) {
    Scalar sc;
    sc.k = Scalar::STR;
    sc.v = Val::str(str);
    sc.skind = kind;
    return sc;
  };
  auto last_handle = [&](int type_mask) {
    std::vector<int> hs = r.live_handles(0, type_mask);
    return hs.empty() ? -1 : hs.back();
  };
  Step ka{false, 0, "a"}, kb{false, 0, "b"}, i0{true, 0, ""}, i1{true, 1, ""}, i2{true, 2, ""};
  switch (code) {
    case 0: r.do_add(T(0, 0), I(1)); break;
    case 1: r.do_add(T(0, 0), S("s", SK_STD)); break;
    case 2: r.do_add_new(T(0, 0), 1); break;
    case 3: r.do_add_new(T(0, 0), 2); break;
    case 4: r.do_member_set(T(0, 0), ka, 0, I(1)); break;
    case 5: r.do_member_set(T(0, 0), ka, 1, S("s", SK_LINKED)); break;
    case 6: r.do_elem_set(T(0, 3, {kb}), i1, I(4294967297ull)); break;
    case 7: r.do_member_set(T(0, 3, {ka}), kb, 0, S("t", SK_STD)); break;
    case 8: r.do_remove(T(0, 0), true, 0, "", false); break;
    case 9: r.do_remove(T(0, 0), false, 0, "a", true); break;
    case 10: r.do_clear(T(0, 3, {i0})); break;
    case 11: r.do_to(T(0, 0), 1); break;
    case 12: r.do_to(T(0, 0), 2); break;
    case 13: r.do_clear(T(0, 0)); break;
    case 14: {
      int h = last_handle(2);
      if (h < 0) throw cs::EnumSkip();
      r.note("h" + std::to_string(h) + "(array).add(1)");
      Val* n = find_id(r.m.docs[0].root, r.m.handles[(size_t)h].id);
      Val e = Val::uint(1);
      e.id = r.m.fresh();
      n->a.push_back(e);
      for (auto& w : r.worlds) w->handles[(size_t)h].a.add(1);
      break;
    }
    case 15: {
      int h = last_handle(4);
      if (h < 0) throw cs::EnumSkip();
      r.note("h" + std::to_string(h) + "(object)[\"a\"] = \"s\"");
      Val* n = find_id(r.m.docs[0].root, r.m.handles[(size_t)h].id);
      Val* c = r.child(*n, ka, true);
      r.m.assign(*c, Val::str("s"));
      for (auto& w : r.worlds) w->handles[(size_t)h].o["a"] = std::string("s");
      break;
    }
    case 16: {
      int h = last_handle(1);
      if (h < 0) throw cs::EnumSkip();
      r.do_remove(T(0, 2, {}, h), true, 0, "", false);
      break;
    }
    case 17: {
      Source src{0, -1};
      std::vector<int> hs = r.live_handles(0, 7);
      if (hs.empty()) throw cs::EnumSkip();
      src.handle = hs.front();
      r.do_member_copy(T(0, 0), i0, src);
      break;
    }
    case 18: r.do_copy(T(1, 0), Source{0, -1}); break;
    case 19: r.do_add_copy(T(0, 0), Source{1, -1}); break;
    case 20: r.do_doc_level(4, 0, 1); break;
    case 21: r.do_doc_level(6, 0, 0); break;
    case 22: r.do_elem_set(T(0, 0), i2, I(1)); break;
    case 23: r.do_doc_level(2, 1, 0); break;
    case 24: r.do_doc_level(3, 0, 1); break;
    default: {
      Val v = Val::arr();
      v.a.push_back(Val::uint(1));
      Val o = Val::obj();
      o.o.push_back({"a", Val::str("s")});
      v.a.push_back(o);
      r.do_deserialize(T(0, 3, {ka}), v, false);
    }
  }
}

static void history_case(cs::Src& s, cs::Ctx& ctx) {
  ctx.evaluations++;
  hist::Options o = base_options(ctx);
  if (s.enumerating()) {
    // bounded-exhaustive: every sequence of `depth` operations over the 26-op alphabet
    size_t depth = (size_t)ctx.param_u("enum_depth", 4);
    hist::Runner r(s, ctx, o);
    r.init();
    std::vector<int> codes;
    uint64_t key = 0;
    for (size_t i = 0; i < depth; i++) {
      int code = (int)s.below(NSMALL);
      codes.push_back(code);
      key = key * 31 + (uint64_t)code + 1;
      if (i == 1 && !cs::enum_owner(ctx, key)) throw cs::EnumSkip();  // shard by the first two operations
      r.st.ops++;
      small_op(r, code);
      r.verify(true);
    }
    r.finish();
    ctx.counted_nontrivial++;
    if (ctx.want_sample() && (key % 9973) == 0) ctx.sample(r.log);
    return;
  }
  o.ndocs = 1 + (size_t)s.below(3);
  hist::Runner r(s, ctx, o);
  r.known_alias = ctx.is_known("alias_overlap");
  r.init();
  static const unsigned wl[] = {5, 3, 1};
  size_t nops;
  switch (s.pick(wl)) {
    case 0: nops = 20 + (size_t)s.below(40); break;
    case 1: nops = 60 + (size_t)s.below(100); break;
    default: nops = 160 + (size_t)s.below(240);
  }
  for (size_t i = 0; i < nops; i++) r.step();
  r.finish();
  ctx.executions += r.st.ops;
  ctx.current_rendering = r.log;
  bool nontrivial = (r.st.inserts_after_removal > 0 || r.st.copies > 0 || r.st.doc_moves > 0) && r.st.max_handle_survival >= 3;
  if (nontrivial) ctx.nontrivial_str(r.log);
  else ctx.trivial++;
  if (r.st.inserts_after_removal) ctx.label("insert-after-removal");
  if (r.st.copies) ctx.label("copy-between-values");
  if (r.st.doc_moves) ctx.label("document-level-move-swap-assign");
  if (r.st.proxy_ops) ctx.label("proxy-path-write");
  if (r.st.deser_ops) ctx.label("deserialize-into-value");
  if (r.st.container_sets) ctx.label("container-set(JsonArray/JsonObject::set)");
  if (r.st.no_such_key_ops) ctx.label("null-key/non-key-variant-op");
  if (r.st.assign_ops) ctx.label("operator=-write");
  if (r.st.iterator_handles) ctx.label("reference-obtained-through-iterator");
  if (r.st.alias_excluded) ctx.label("alias-ops-excluded", r.st.alias_excluded);
  ctx.label("operations", r.st.ops);
  if (ctx.want_sample() && r.st.ops < 40) ctx.sample(r.log);
}

