// C02 — serializeJson emits exactly the document, on every kind of destination.
#include <ArduinoJson.h>

#include <iomanip>
#include <sstream>

#include "../engine/runner.hpp"
#include "../gen/json_text.hpp"
#include "../gen/values.hpp"
#include "../gen/history_run.hpp"
#include "../lib/build.hpp"
#include "../lib/observe.hpp"
#include "../ref/json_ref.hpp"
#include "../ref/msgpack_ref.hpp"

using namespace ArduinoJson;
using ref::Val;

// a writer that takes only `budget` bytes in total (a full device): whatever it refuses is not counted
struct BudgetWriter {
  std::string out;
  size_t budget;
  explicit BudgetWriter(size_t b) : budget(b) {}
  size_t write(uint8_t c) {
    if (out.size() >= budget) return 0;
    out += (char)c;
    return 1;
  }
  size_t write(const uint8_t* s, size_t n) {
    size_t room = budget - out.size();
    if (n > room) n = room;
    out.append(reinterpret_cast<const char*>(s), n);
    return n;
  }
};

struct CustomWriter {
  std::string out;
  size_t calls1 = 0, callsN = 0;
  size_t write(uint8_t c) {
    out += (char)c;
    calls1++;
    return 1;
  }
  size_t write(const uint8_t* s, size_t n) {
    out.append(reinterpret_cast<const char*>(s), n);
    callsN++;
    return n;
  }
};

#if ARDUINOJSON_ENABLE_ARDUINO_PRINT
struct MyPrint : Print {
  std::string out;
  size_t write(uint8_t c) override {
    out += (char)c;
    return 1;
  }
  size_t write(const uint8_t* s, size_t n) override {
    out.append(reinterpret_cast<const char*>(s), n);
    return n;
  }
};
#endif

// print tolerance for a stored number (C12): float-stored 1e-6*max(1,|x|), double 1e-9*max(1,|x|)
static bool num_print(const Val& w, const Val& g) {
  if (w.k == Val::Int) return g.k == Val::Int && w.neg == g.neg && w.mag == g.mag;
  long double x = w.d, y = g.as_ld();
  long double ax = fabsl(x);
  if (ax != 0 && (ax < 1e-300L || ax > 1e300L)) return g.k == Val::Flt || g.k == Val::Int;
  long double tol = (w.is_f32() ? 1e-6L : 1e-9L) * fmaxl(1, ax);
  return fabsl(x - y) <= tol;
}

// reference pretty printer (CRLF, one ARDUINOJSON_TAB per level); float-free values only
static bool pretty(const Val& v, std::string& o, size_t level) {
  auto indent = [&](size_t n) {
    for (size_t i = 0; i < (n & 0xFF); i++) o += ARDUINOJSON_TAB;
  };
  if (v.k == Val::Arr) {
    if (v.a.empty()) {
      o += "[]";
      return true;
    }
    o += "[\r\n";
    bool ok = true;
    for (size_t i = 0; i < v.a.size(); i++) {
      indent(level + 1);
      ok = pretty(v.a[i], o, level + 1) && ok;
      o += i + 1 < v.a.size() ? ",\r\n" : "\r\n";
    }
    indent(level);
    o += "]";
    return ok;
  }
  if (v.k == Val::Obj) {
    if (v.o.empty()) {
      o += "{}";
      return true;
    }
    o += "{\r\n";
    bool ok = true;
    for (size_t i = 0; i < v.o.size(); i++) {
      indent(level + 1);
      jref::print_string(v.o[i].first, o);
      o += ": ";
      ok = pretty(v.o[i].second, o, level + 1) && ok;
      o += i + 1 < v.o.size() ? ",\r\n" : "\r\n";
    }
    indent(level);
    o += "}";
    return ok;
  }
  return jref::print(v, o);
}

static bool raw_fragments_valid(const Val& v) {
  bool ok = true;
  v.walk([&](const Val& n) {
    if (n.k == Val::Raw) {
      jref::Result r = jref::parse(n.s, jref::Dialect(), 100, 1u << 20);
      if (r.unspecified || r.allowed != jref::bit(jref::OK)) ok = false;
      for (size_t i = r.end; ok && i < n.s.size(); i++)
        if (n.s[i] != ' ' && n.s[i] != '\t' && n.s[i] != '\r' && n.s[i] != '\n') ok = false;
      for (unsigned char c : n.s)
        if (c == 0) ok = false;
    }
  });
  return ok;
}

template <bool PRETTY>
static size_t ser_buf(JsonVariantConst v, void* p, size_t n) {
  return PRETTY ? serializeJsonPretty(v, p, n) : serializeJson(v, p, n);
}

template <bool PRETTY>
static void check_bounded(cs::Ctx& ctx, JsonVariantConst v, const std::string& T, size_t cap, bool exact_block) {
  const size_t G = exact_block ? 0 : 32;
  unsigned char* block = static_cast<unsigned char*>(malloc(G + cap + G ? G + cap + G : 1));
  memset(block, 0xA5, G + cap + G);
  size_t r = ser_buf<PRETTY>(v, block + G, cap);
  ctx.executions++;
  size_t want = cap < T.size() ? cap : T.size();
  std::string problem;
  if (r != want) problem = "returned " + std::to_string(r) + ", expected min(capacity,length) = " + std::to_string(want);
  else if (memcmp(block + G, T.data(), want) != 0) problem = "stored bytes are not the prefix of the text";
  else {
    if (T.size() < cap) {
      if (block[G + T.size()] != 0) problem = "terminating NUL missing although length < capacity";
      for (size_t i = T.size() + 1; i < cap && problem.empty(); i++)
        if (block[G + i] != 0xA5) problem = "byte beyond the terminator was written";
    }
    for (size_t i = 0; i < G && problem.empty(); i++)
      if (block[i] != 0xA5 || block[G + cap + i] != 0xA5) problem = "byte outside the buffer was written";
  }
  free(block);
  if (!problem.empty())
    ctx.fail(PRETTY ? "bounded-buffer-pretty" : "bounded-buffer", "capacity " + std::to_string(cap) + " length " + std::to_string(T.size()) + ": " + problem);
}

template <bool PRETTY>
static std::string check_destinations(cs::Ctx& ctx, cs::Src& s, JsonVariantConst v, bool& truncated) {
  const char* tag = PRETTY ? "pretty" : "compact";
  std::string T;
  size_t r1 = PRETTY ? serializeJsonPretty(v, T) : serializeJson(v, T);
  size_t m = PRETTY ? measureJsonPretty(v) : measureJson(v);
  ctx.executions++;
  if (r1 != T.size()) ctx.fail("count", std::string(tag) + ": std::string destination returned " + std::to_string(r1) + " for " + std::to_string(T.size()) + " bytes");
  if (m != T.size()) ctx.fail("measure", std::string(tag) + ": measure returned " + std::to_string(m) + " but " + std::to_string(T.size()) + " bytes are produced");
  {
    std::string pre = "prefix:";
    std::string t2 = pre;
    size_t r = PRETTY ? serializeJsonPretty(v, t2) : serializeJson(v, t2);  // std::string destinations are replaced
    (void)r;
    if (t2 != T && t2 != pre + T) ctx.fail("std-string", std::string(tag) + ": non-empty std::string destination received other bytes");
  }
  {
    std::ostringstream os;
    size_t r = PRETTY ? serializeJsonPretty(v, os) : serializeJson(v, os);
    if (os.str() != T || r != T.size()) ctx.fail("ostream", std::string(tag) + ": std::ostream received different bytes or count");
  }
  {
    // a stream carrying formatting state (field width, fill, base, ...) receives the same bytes
    std::ostringstream os;
    os.width(2 + (std::streamsize)s.below(6));
    os.fill(s.coin() ? '*' : '0');
    os.precision(2);
    os << std::hex << std::uppercase << std::showbase << std::boolalpha;
    if (s.coin()) os << std::left;
    size_t r = PRETTY ? serializeJsonPretty(v, os) : serializeJson(v, os);
    if (os.str() != T || r != T.size())
      ctx.fail("ostream", std::string(tag) + ": std::ostream with formatting state (width/fill/hex) received different bytes or count: " + cs::quote_bytes(os.str(), 200));
    std::ostringstream os2;
    os2.width(3);
    os2.fill('#');
    if (PRETTY) os2 << std::left;
    os2 << v;  // operator<< writes the compact text
    if (!PRETTY && os2.str() != T) ctx.fail("ostream", "operator<< on a stream with a field width wrote " + cs::quote_bytes(os2.str(), 200));
  }
  {
    CustomWriter w;
    size_t r = PRETTY ? serializeJsonPretty(v, w) : serializeJson(v, w);
    if (w.out != T || r != T.size()) ctx.fail("custom-writer", std::string(tag) + ": custom writer received different bytes or count");
  }
  {
    // the count is what the destination reports to have taken
    size_t budget = (size_t)s.below(T.size() + 3);
    BudgetWriter w(budget);
    size_t r = PRETTY ? serializeJsonPretty(v, w) : serializeJson(v, w);
    size_t want = budget < T.size() ? budget : T.size();
    if (w.out != T.substr(0, want) || r != want)
      ctx.fail("custom-writer", std::string(tag) + ": writer with a budget of " + std::to_string(budget) + " bytes holds " + std::to_string(w.out.size()) + " bytes, returned count " + std::to_string(r) + ", expected " + std::to_string(want));
  }
  if (!PRETTY) {
    // unbound sources serialize as null and measure accordingly
    JsonVariantConst uv;
    JsonArrayConst ua;
    JsonObjectConst uo;
    std::string t1, t2, t3;
    if (serializeJson(uv, t1) != 4 || t1 != "null" || measureJson(uv) != 4 || measureJsonPretty(uv) != 4) ctx.fail("unbound-source", "unbound JsonVariantConst does not serialize/measure as null");
    if (serializeJson(ua, t2) != measureJson(ua) || serializeJsonPretty(ua, t3) != measureJsonPretty(ua)) ctx.fail("unbound-source", "unbound JsonArrayConst: measure disagrees with serialize");
    t2.clear();
    t3.clear();
    if (serializeJson(uo, t2) != measureJson(uo) || serializeJsonPretty(uo, t3) != measureJsonPretty(uo)) ctx.fail("unbound-source", "unbound JsonObjectConst: measure disagrees with serialize");
    JsonVariantConst missing = v["\x01no such member"][7];
    t2.clear();
    if (serializeJson(missing, t2) != measureJson(missing) || t2 != "null" || measureMsgPack(missing) != 1) ctx.fail("unbound-source", "missing member: measure disagrees with serialize");
  }
#if ARDUINOJSON_ENABLE_ARDUINO_PRINT
  {
    MyPrint p;
    size_t r = PRETTY ? serializeJsonPretty(v, p) : serializeJson(v, p);
    if (p.out != T || r != T.size()) ctx.fail("arduino-print", std::string(tag) + ": Print received different bytes or count");
    ctx.label("arduino-print");
  }
#endif
#if ARDUINOJSON_ENABLE_ARDUINO_STRING
  if (T.find('\0') == std::string::npos) {
    ::String str;
    str.limitCapacityTo(T.size() + 64);
    size_t r = PRETTY ? serializeJsonPretty(v, str) : serializeJson(v, str);
    if (std::string(str.c_str()) != T || r != T.size()) ctx.fail("arduino-string", std::string(tag) + ": String received different bytes or count");
    ctx.label("arduino-string");
  }
#endif
  {
    // char (&)[N]
    typedef char Arr[48];
    Arr* a = static_cast<Arr*>(malloc(sizeof(Arr)));
    memset(*a, 0xA5, sizeof(Arr));
    size_t r = PRETTY ? serializeJsonPretty(v, *a) : serializeJson(v, *a);
    size_t want = T.size() < 48 ? T.size() : 48;
    bool ok = r == want && memcmp(*a, T.data(), want) == 0 && (T.size() >= 48 || (*a)[T.size()] == 0);
    free(a);
    if (!ok) ctx.fail("char-array", std::string(tag) + ": char[48] destination wrong");
  }
  // bounded buffers: all capacities 0..len+2 when short, else edges + random
  size_t len = T.size();
  if (len <= 96) {
    for (size_t cap = 0; cap <= len + 2; cap++) check_bounded<PRETTY>(ctx, v, T, cap, (cap & 1) != 0);
    truncated = len > 0;
  } else {
    size_t caps[] = {0, 1, len - 2, len - 1, len, len + 1, len + 2};
    for (size_t cap : caps) check_bounded<PRETTY>(ctx, v, T, cap, (cap & 1) != 0);
    for (int i = 0; i < 12; i++) check_bounded<PRETTY>(ctx, v, T, (size_t)s.below(len + 3), i & 1);
    truncated = true;
  }
  return T;
}

static void check_document(cs::Ctx& ctx, cs::Src& s, JsonDocument& doc, bool& truncated) {
  JsonVariantConst v = doc.as<JsonVariantConst>();
  Val o = lib::observe(v);
  std::string T = check_destinations<false>(ctx, s, v, truncated);
  ctx.current_rendering += "\ntext: " + cs::quote_bytes(T, 1500);
  bool floats = jref::has_float(o);
  bool raws = jref::has_raw(o);
  if (!floats) {
    std::string want;
    jref::print(o, want);
    if (T != want) ctx.fail("text-differs", "serializeJson produced " + cs::quote_bytes(T, 600) + " but the document denotes " + cs::quote_bytes(want, 600));
  }
  bool raws_valid = !raws || raw_fragments_valid(o);
  if (raws_valid) {
    // an independent RFC 8259 parser accepts the text and it denotes the document
    jref::Result r = jref::parse(T, jref::Dialect(), 1000, 1u << 24);
    if (r.allowed != jref::bit(jref::OK) || !r.value_known)
      ctx.fail("not-json", "output is not accepted by the reference parser (" + jref::mask_names(r.allowed) + " " + r.zone + "): " + cs::quote_bytes(T, 600));
    if (r.end != T.size() && !r.top_number) ctx.fail("not-json", "output continues after the top-level value");
    if (!raws && !ref::has_duplicate_keys(o)) {
      // non-finite -> null
      Val expect = o;
      std::function<void(Val&)> nf = [&](Val& n) {
        if (n.k == Val::Flt && !std::isfinite(n.d)) n = Val::null();
        for (auto& e : n.a) nf(e);
        for (auto& kv : n.o) nf(kv.second);
      };
      nf(expect);
      std::string why;
      if (!ref::same(expect, r.value, num_print, &why)) ctx.fail("value-differs", "text denotes another value: " + why + " text " + cs::quote_bytes(T, 400));
    }
  }
  // pretty: same text modulo insignificant whitespace; exact layout for float-free documents
  bool t2 = false;
  std::string P = check_destinations<true>(ctx, s, v, t2);
  if (raws_valid) {
    if (jref::strip_ws(P) != jref::strip_ws(T)) ctx.fail("pretty-differs", "pretty and compact texts differ beyond whitespace: " + cs::quote_bytes(P, 400) + " vs " + cs::quote_bytes(T, 400));
  }
  if (!floats && o.nesting() < 250) {
    std::string want;
    pretty(o, want, 0);
    if (P != want) ctx.fail("pretty-layout", "pretty text " + cs::quote_bytes(P, 500) + " expected " + cs::quote_bytes(want, 500));
  }
}

static void run_case(cs::Src& s, cs::Ctx& ctx) {
  ctx.evaluations++;
  gen::Opts o;
  o.utf8_only = false;
  o.long_strings = s.chance(1, 6);
  o.raw = true;
  o.nonfinite = true;
  o.top_container = s.chance(3, 4);
  if (s.chance(1, 12)) {
    o.max_depth = (size_t)s.range(5, 30);
    o.max_children = 2;
  }
  Val v = gen::gen_value(s, o);
  // raw values with arbitrary bytes (incl. NUL) in some float-free documents
  if (s.chance(1, 8)) {
    std::function<void(Val&)> addraw = [&](Val& n) {
      if (n.k == Val::Arr && s.coin()) {
        std::string r;
        size_t k = (size_t)s.below(6);
        for (size_t i = 0; i < k; i++) r += (char)s.below(256);
        n.a.push_back(Val::raw(r));
      }
      for (auto& e : n.a) addraw(e);
      for (auto& kv : n.o) addraw(kv.second);
    };
    addraw(v);
  }
  ctx.current_rendering = "value: " + ref::render(v);
  lib::Arena arena;
  JsonDocument doc;
  unsigned how = (unsigned)s.below(4);
  if (how == 1 && !jref::has_raw(v)) {
    // through deserializeJson of a spelled text (non-finite floats cannot be written)
    std::function<void(Val&)> fin = [&](Val& n) {
      if (n.k == Val::Flt && !std::isfinite(n.d)) n.d = 0.25;
      for (auto& e : n.a) fin(e);
      for (auto& kv : n.o) fin(kv.second);
    };
    fin(v);
    std::function<bool(const Val&)> has_nul_or_bad = [&](const Val& n) {
      bool bad = false;
      n.walk([&](const Val&) {});
      return bad;
    };
    (void)has_nul_or_bad;
    gen::Spell sp;
    sp.strict = false;  // raw bytes are passed through by the parser
    std::string text = gen::spell_document(s, sp, v);
    DeserializationError err = deserializeJson(doc, text.data(), text.size(), DeserializationOption::NestingLimit(100));
    if (err != DeserializationError::Ok) {
      ctx.label("input-text-rejected");
      return;
    }
    ctx.label("doc-from-json");
  } else if (how == 2 && !jref::has_raw(v)) {
    struct W : mref::Widths {
      cs::Src* s;
      uint64_t choose(uint64_t n) override { return s->below(n); }
    } w;
    w.s = &s;
    std::string mp;
    mref::EncStats st;
    mref::encode(v, mp, w, st);
    DeserializationError err = deserializeMsgPack(doc, mp.data(), mp.size(), DeserializationOption::NestingLimit(100));
    if (err != DeserializationError::Ok) {
      ctx.label("input-msgpack-rejected");
      return;
    }
    ctx.label("doc-from-msgpack");
  } else if (how == 3) {
    // a document reached through a model-checked API history (free slots, shared strings, holes)
    hist::Options ho;
    ho.ndocs = 1;
    ho.allow_alias_ops = false;
    ho.doc_level_ops = false;
    hist::Runner r(s, ctx, ho);
    r.init();
    size_t nops = 5 + (size_t)s.below(25);
    for (size_t i = 0; i < nops; i++) r.step();
    v = r.m.docs[0].root;
    ctx.current_rendering = "history:" + r.log + "\nvalue: " + ref::render(v);
    bool truncated_h = false;
    check_document(ctx, s, *r.worlds[0]->docs[0], truncated_h);
    r.finish();
    ctx.label("doc-from-history");
    if (v.nodes() >= 2 && truncated_h) ctx.nontrivial_str(ref::render(v, 3000));
    else ctx.trivial++;
    return;
  } else {
    if (!lib::build(doc.to<JsonVariant>(), v, s, arena)) ctx.fail("build", "building the document failed");
    ctx.label("doc-from-api");
  }
  bool truncated = false;
  check_document(ctx, s, doc, truncated);
  bool esc = false, i64 = false;
  v.walk([&](const Val& n) {
    if (n.k == Val::Int && n.mag > UINT32_MAX) i64 = true;
    if (n.k == Val::Str)
      for (unsigned char c : n.s)
        if (c < 0x20 || c == '"' || c == '\\') esc = true;
  });
  if ((v.nodes() >= 2 || esc || i64) && truncated) ctx.nontrivial_str(ref::render(v, 3000));
  else ctx.trivial++;
  if (jref::has_raw(v)) ctx.label("has-raw");
  if (jref::has_float(v)) ctx.label("has-float");
  if (ctx.want_sample() && v.nodes() >= 3) ctx.sample(ref::render(v, 300));
}

static void witness(const std::string& name, cs::Ctx& ctx) {
  ctx.fail("witness", "unknown witness " + name);
}

static cs::PropDef PROP = {"C02", run_case, nullptr, witness};
CS_MAIN(PROP)
