// C15 — the nesting limit bounds recursion for every input.
#include <ArduinoJson.h>

#include <map>

#include "../engine/runner.hpp"
#include "../gen/values.hpp"
#include "../lib/build.hpp"
#include "../lib/observe.hpp"
#include "../lib/sources.hpp"
#include "../ref/msgpack_ref.hpp"

using namespace ArduinoJson;
using ref::Val;

struct Skeleton {
  std::string json, mp;
  // for each container: (offset in json, offset in mp, header bytes in mp, depth)
  struct C {
    size_t joff, moff, mhdr;
    size_t depth;
  };
  std::vector<C> containers;
  size_t max_depth = 0;
};

// shape: a spine of `depth` containers with optional side branches; position of the deep branch varies
static void gen_node(cs::Src& s, Skeleton& k, size_t depth, size_t spine_left, int budget) {
  bool container = spine_left > 0 || (budget > 0 && s.chance(1, 4));
  if (!container) {
    static const char* J[] = {"1", "null", "\"s\"", "true", "-2.5"};
    static const char* M[] = {"\x01", "\xC0", "\xA1s", "\xC3", "\xCB\xC0\x04\x00\x00\x00\x00\x00\x00"};
    static const size_t ML[] = {1, 1, 2, 1, 9};
    size_t i = (size_t)s.below(5);
    k.json += J[i];
    k.mp.append(M[i], ML[i]);
    return;
  }
  bool obj = s.coin();
  size_t nbefore = budget > 0 ? (size_t)s.below(3) : 0, nafter = budget > 0 ? (size_t)s.below(3) : 0;
  size_t n = nbefore + (spine_left > 0 ? 1 : 0) + nafter;
  if (spine_left == 0) n = nbefore + nafter;
  size_t d = depth + 1;
  if (d > k.max_depth) k.max_depth = d;
  Skeleton::C c{k.json.size(), k.mp.size(), 1, d};
  // msgpack header family
  unsigned fam = n <= 15 ? (unsigned)s.below(3) : 1 + (unsigned)s.below(2);
  if (fam == 0) {
    k.mp += (char)((obj ? 0x80 : 0x90) | n);
  } else if (fam == 1) {
    k.mp += (char)(obj ? 0xDE : 0xDC);
    mref::be(k.mp, n, 2);
    c.mhdr = 3;
  } else {
    k.mp += (char)(obj ? 0xDF : 0xDD);
    mref::be(k.mp, n, 4);
    c.mhdr = 5;
  }
  k.containers.push_back(c);
  k.json += obj ? '{' : '[';
  size_t idx = 0;
  auto child = [&](bool spine) {
    if (idx++) k.json += ',';
    if (obj) {
      const char* key = s.coin() ? "a" : "b";
      if (spine && s.coin()) key = "deep";
      k.json += std::string("\"") + key + "\":";
      k.mp += (char)(0xA0 | strlen(key));
      k.mp += key;
    }
    gen_node(s, k, d, spine ? spine_left - 1 : 0, spine ? budget : budget - 1);
  };
  for (size_t i = 0; i < nbefore; i++) child(false);
  if (spine_left > 0) child(true);
  for (size_t i = 0; i < nafter; i++) child(false);
  k.json += obj ? '}' : ']';
}

static const char* FILTERS[] = {nullptr, "true", "false", "null", "{}", "[]", "{\"a\":true}", "{\"b\":true,\"deep\":false}",
                                "{\"*\":false,\"a\":true}", "[true]", "[{\"a\":true}]", "[[false]]", "{\"deep\":{\"deep\":true},\"a\":[true]}",
                                "[{\"*\":[{\"*\":true}]}]", "5", "\"x\""};
static const size_t NFILTERS = sizeof FILTERS / sizeof FILTERS[0];

struct Exec {
  int code;
  size_t consumed;
  size_t stack;
  size_t nesting;
};

static Exec execute(cs::Ctx& ctx, bool msgpack, const std::string& bytes, int L, const char* filter) {
  JsonDocument fdoc;
  if (filter) deserializeJson(fdoc, filter);
  JsonDocument doc;
  lib::CountingReader reader(bytes);
  volatile char base_marker = 0;
  uintptr_t base = (uintptr_t)&base_marker;
  DeserializationError err;
  auto nl = DeserializationOption::NestingLimit((uint8_t)L);
  // L equal to the configured default: the option is left out, so the default itself is exercised
  const bool dflt = L == ARDUINOJSON_DEFAULT_NESTING_LIMIT;
  if (filter) {
    JsonVariantConst fv = fdoc.as<JsonVariantConst>();
    if (dflt) err = msgpack ? deserializeMsgPack(doc, reader, DeserializationOption::Filter(fv)) : deserializeJson(doc, reader, DeserializationOption::Filter(fv));
    else if (L & 1) err = msgpack ? deserializeMsgPack(doc, reader, nl, DeserializationOption::Filter(fv))
                                  : deserializeJson(doc, reader, nl, DeserializationOption::Filter(fv));
    else err = msgpack ? deserializeMsgPack(doc, reader, DeserializationOption::Filter(fv), nl)
                       : deserializeJson(doc, reader, DeserializationOption::Filter(fv), nl);
  } else {
    if (dflt) err = msgpack ? deserializeMsgPack(doc, reader) : deserializeJson(doc, reader);
    else err = msgpack ? deserializeMsgPack(doc, reader, nl) : deserializeJson(doc, reader, nl);
  }
  ctx.executions++;
  Exec e;
  e.code = (int)err.code();
  e.consumed = reader.pos;
  e.stack = reader.min_sp == (uintptr_t)-1 ? 0 : (base > reader.min_sp ? base - reader.min_sp : 0);
  e.nesting = doc.nesting();
  return e;
}

// canonical chains for the stack bound: depth-L chains of arrays / objects, parsed and skipped
static std::map<std::pair<int, int>, size_t> g_baseline;
static size_t baseline(cs::Ctx& ctx, bool msgpack, int L, bool filtered) {
  auto key = std::make_pair(L * 4 + (msgpack ? 2 : 0) + (filtered ? 1 : 0), 0);
  auto it = g_baseline.find(key);
  if (it != g_baseline.end()) return it->second;
  size_t best = 0;
  for (int obj = 0; obj < 2; obj++) {
    std::string j, m;
    for (int i = 0; i < L; i++) {
      if (obj) {
        j += "{\"a\":";
        m += "\x81\xA1"
             "a";
      } else {
        j += "[";
        m += "\x91";
      }
    }
    j += "1";
    m += "\x01";
    for (int i = 0; i < L; i++) j += obj ? "}" : "]";
    const std::string& in = msgpack ? m : j;
    if (!filtered) {
      best = std::max(best, execute(ctx, msgpack, in, L, nullptr).stack);
    } else {
      best = std::max(best, execute(ctx, msgpack, in, L, "true").stack);
      best = std::max(best, execute(ctx, msgpack, in, L, "false").stack);
      // chains that descend through filter objects/arrays (filter lookups on every level)
      std::string f;
      for (int i = 0; i < L && i < 60; i++) f += obj ? "{\"a\":" : "[";
      f += "true";
      for (int i = 0; i < L && i < 60; i++) f += obj ? "}" : "]";
      JsonDocument probe;
      if (deserializeJson(probe, f, DeserializationOption::NestingLimit(100)) == DeserializationError::Ok)
        best = std::max(best, execute(ctx, msgpack, in, L, f.c_str()).stack);
    }
  }
  g_baseline[key] = best;
  return best;
}

static void check(cs::Ctx& ctx, bool msgpack, const Skeleton& k, int L, const char* filter, const std::string& tail) {
  std::string bytes = (msgpack ? k.mp : k.json) + tail;
  Exec e = execute(ctx, msgpack, bytes, L, filter);
  size_t d = k.max_depth;
  auto where = [&]() {
    return std::string(msgpack ? "msgpack " : "json ") + "depth " + std::to_string(d) + " limit " + std::to_string(L) + " filter " +
           (filter ? filter : "(none)") + " input " + (msgpack ? cs::hex_bytes(bytes, 120) : cs::quote_bytes(bytes, 240));
  };
  if (d > (size_t)L) {
    if (e.code != DeserializationError::TooDeep) ctx.fail("toodeep-missed", where() + ": returned code " + std::to_string(e.code) + " although a container is opened at depth L+1");
    // reads stop at the offending bracket / header
    size_t stop = 0;
    for (auto& c : k.containers)
      if (c.depth == (size_t)L + 1) {
        stop = msgpack ? c.moff + c.mhdr : c.joff + 1;
        break;
      }
    if (e.consumed > stop) ctx.fail("read-past-offending-bracket", where() + ": consumed " + std::to_string(e.consumed) + " bytes, offending container ends its header at " + std::to_string(stop));
  } else {
    if (e.code == DeserializationError::TooDeep) ctx.fail("toodeep-spurious", where() + ": TooDeep although depth <= limit");
    if (e.code != DeserializationError::Ok) ctx.fail("wellformed-rejected", where() + ": returned code " + std::to_string(e.code));
    if (e.nesting > (size_t)L) ctx.fail("nesting-above-limit", where() + ": nesting() = " + std::to_string(e.nesting));
  }
  size_t base = baseline(ctx, msgpack, L, filter != nullptr);
  if (e.stack > base + 512)
    ctx.fail("stack-not-bounded-by-limit", where() + ": used " + std::to_string(e.stack) + " bytes of stack, canonical depth-L chains use " + std::to_string(base));
}

static void run_case(cs::Src& s, cs::Ctx& ctx) {
  ctx.evaluations++;
  Skeleton k;
  static const unsigned wd[] = {6, 3, 1};
  size_t depth;
  switch (s.pick(wd)) {
    case 0: depth = (size_t)s.below(12); break;
    case 1: depth = (size_t)s.below(70); break;
    default: depth = (size_t)s.below(300);
  }
  gen_node(s, k, 0, depth, 6);
  size_t d = k.max_depth;
  int L;
  switch (s.below(3)) {
    case 0: L = (int)s.below(256); break;
    case 1: L = (int)d + (int)s.below(3) - 1; break;
    default: L = (int)s.below(12);
  }
  if (L < 0) L = 0;
  if (L > 255) L = 255;
  bool msgpack = s.coin();
  const char* filter = FILTERS[s.below(NFILTERS)];
  std::string tail;
  if (s.chance(1, 4)) tail = msgpack ? std::string("\xC1\x91\x91", 3) : std::string(" ]]{{\x01");  // garbage after the document
  ctx.current_rendering = std::string(msgpack ? "msgpack " : "json ") + "depth=" + std::to_string(d) + " L=" + std::to_string(L) + " filter=" +
                          (filter ? filter : "(none)") + "\ninput: " + (msgpack ? cs::hex_bytes(k.mp, 300) : cs::quote_bytes(k.json, 600));
  check(ctx, msgpack, k, L, filter, tail);
  long diff = (long)d - L;
  bool edge = diff >= -1 && diff <= 1;
  if (edge || (filter && d > (size_t)L)) ctx.nontrivial(cs::hash_str(k.json, cs::hash_u64((uint64_t)L * 64 + (msgpack ? 32 : 0) + (uint64_t)(filter ? filter[0] : 0))));
  else ctx.trivial++;
  if (edge) ctx.label("depth-within-1-of-limit");
  if (filter) ctx.label("with-filter");
  ctx.label(msgpack ? "msgpack" : "json");
  if (ctx.want_sample() && k.json.size() < 100) ctx.sample(k.json + " L=" + std::to_string(L) + (filter ? std::string(" filter=") + filter : ""));
}

// adversarial: thousands of opening brackets / headers, malformed after the deep point
static void sweep(cs::Ctx& ctx, uint64_t shard, uint64_t nshards) {
  uint64_t idx = 0;
  for (int L : {0, 1, 2, 5, 10, 50, 200, 255}) {
    for (size_t n : {(size_t)2 * (size_t)L + 2, (size_t)1000, (size_t)100000}) {
      for (int form = 0; form < 5; form++) {
        for (const char* filter : {(const char*)nullptr, "true", "false", "[[{\"a\":true}]]"}) {
          if (idx++ % nshards != shard) continue;
          bool msgpack = form >= 2;
          std::string in;
          for (size_t i = 0; i < n; i++) {
            switch (form) {
              case 0: in += '['; break;
              case 1: in += "{\"a\":"; break;
              case 2: in += '\x91'; break;
              case 3: in += std::string("\x81\xA0", 2); break;
              default: in += std::string("\xDD\x00\x00\x00\x01", 5);
            }
          }
          ctx.evaluations++;
          ctx.counted_nontrivial++;
          ctx.current_rendering = "adversarial form " + std::to_string(form) + " x" + std::to_string(n) + " L=" + std::to_string(L) + " filter=" + (filter ? filter : "(none)");
          Exec e = execute(ctx, msgpack, in, L, filter);
          if (n > (size_t)L) {
            if (e.code != DeserializationError::TooDeep) ctx.fail("toodeep-missed", ctx.current_rendering + ": code " + std::to_string(e.code));
          } else if (e.code != DeserializationError::IncompleteInput) {
            ctx.fail("open-chain-not-incomplete", ctx.current_rendering + ": code " + std::to_string(e.code));
          }
          size_t per = form == 0 || form == 2 ? 1 : form == 1 ? 5 : form == 3 ? 2 : 5;
          if (n > (size_t)L && e.consumed > ((size_t)L + 1) * per)
            ctx.fail("read-past-offending-bracket", ctx.current_rendering + ": consumed " + std::to_string(e.consumed));
          size_t base = baseline(ctx, msgpack, L, filter != nullptr);
          if (e.stack > base + 512)
            ctx.fail("stack-not-bounded-by-limit", ctx.current_rendering + ": used " + std::to_string(e.stack) + " canonical " + std::to_string(base));
          ctx.label("adversarial");
        }
      }
    }
  }
  // flat but long inputs: the stack must not grow with the length either
  for (int L : {1, 10}) {
    for (int form = 0; form < 10; form++) {
      for (size_t n : {(size_t)3, (size_t)20000}) {
        if (idx++ % nshards != shard) continue;
        bool msgpack = form >= 8;
        std::string in;
        switch (form) {
          case 0: in = std::string(n, ' ') + "[1]"; break;
          case 1:
            in = "[";
            for (size_t i = 0; i < n; i++) in += (i ? ",1" : "1");
            in += "]";
            break;
          case 2:
            in = "{";
            for (size_t i = 0; i < n; i++) in += std::string(i ? "," : "") + "\"k" + std::to_string(i) + "\":null";
            in += "}";
            break;
          case 3: in = "[\"" + std::string(n, 'x') + "\"]"; break;
          case 4: in = "[" + std::string(n, '\n') + "1" + std::string(n, '\t') + "]"; break;
#if ARDUINOJSON_ENABLE_COMMENTS
          case 5:
            for (size_t i = 0; i < n; i++) in += "/*c*/";
            in += "[1]";
            break;
          case 6:
            in = "[";
            for (size_t i = 0; i < n; i++) in += "//c\n";
            in += "1";
            for (size_t i = 0; i < n; i++) in += "/**/ ";
            in += "]";
            break;
          case 7:
            in = "{";
            for (size_t i = 0; i < n; i++) in += "/*a*/ //b\n";
            in += "\"k\"";
            for (size_t i = 0; i < n; i++) in += "/*a*/";
            in += ":";
            for (size_t i = 0; i < n; i++) in += "//b\n";
            in += "1}";
            break;
#else
          case 5:
          case 6:
          case 7: continue;
#endif
          case 8:
            in = std::string("\xDC", 1) + (char)(n >> 8) + (char)(n & 255) + std::string(n, '\xC0');
            break;
          default:
            in = std::string("\xDE", 1) + (char)(n >> 8) + (char)(n & 255);
            for (size_t i = 0; i < n; i++) in += std::string("\xA1k\x01", 3);
        }
        ctx.evaluations++;
        ctx.counted_nontrivial++;
        ctx.current_rendering = "flat form " + std::to_string(form) + " x" + std::to_string(n) + " L=" + std::to_string(L);
        for (const char* filter : {(const char*)nullptr, "false"}) {
          Exec e = execute(ctx, msgpack, in, L, filter);
          if (e.code != DeserializationError::Ok) ctx.fail("wellformed-rejected", ctx.current_rendering + ": code " + std::to_string(e.code));
          size_t base = baseline(ctx, msgpack, L, filter != nullptr);
          if (e.stack > base + 512)
            ctx.fail("stack-not-bounded-by-limit", ctx.current_rendering + ": used " + std::to_string(e.stack) + " bytes of stack, canonical depth-L chains use " + std::to_string(base));
        }
        ctx.label("flat-long-input");
      }
    }
  }
  ctx.current_rendering.clear();
}

static void witness(const std::string& name, cs::Ctx& ctx) { ctx.fail("witness", "unknown witness " + name); }

static cs::PropDef PROP = {"C15", run_case, sweep, witness};
CS_MAIN(PROP)
