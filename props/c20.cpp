// C20 — distinct documents can be used from distinct threads without synchronisation.
// Built twice: with -fsanitize=thread (any ThreadSanitizer report aborts the process) and with
// ASan/UBSan. Every thread's transcript must equal the transcript of the same program run
// sequentially beforehand.
#include "history_case.hpp"

#include <atomic>
#include <thread>

#include "../gen/json_text.hpp"
#include "../ref/msgpack_ref.hpp"

#if defined(__has_feature)
#if __has_feature(thread_sanitizer)
#define VERIF_TSAN 1
#endif
#endif

#ifndef VERIF_TSAN
static std::atomic<int> g_in_deser{0}, g_in_fser{0};
static std::atomic<int> g_overlap{0};
#endif

struct Shared {
  const JsonDocument* doc;  // accessed through const references / JsonVariantConst only
};

// One per-thread program; everything it touches is local except `shared` (read-only).
static std::string program(uint64_t seed, const Shared& shared, const std::vector<std::string>& known) {
  std::string tr;
  cs::Src s;
  s.init_random(seed);
  cs::Ctx ctx;  // local: the harness shares nothing between threads either
  ctx.active_known = known;
  ctx.max_samples = 0;
  JsonVariantConst sroot = shared.doc->as<JsonVariantConst>();
  // 1. a model-checked API history on two private documents
  {
    hist::Options o;
    o.ndocs = 2;
    o.allow_alias_ops = false;
    hist::Runner r(s, ctx, o);
    r.init();
    for (int i = 0; i < 12; i++) r.step();
    for (size_t d = 0; d < 2; d++) {
      std::string t;
      serializeJson(*r.worlds[0]->docs[d], t);
      tr += "H" + t;
    }
    r.finish();
  }
  // 2. build, serialize (floats included) in both formats
  gen::Opts go;
  go.utf8_only = false;
  go.nonfinite = true;
  go.top_container = true;
  Val v = gen::gen_value(s, go);
  lib::Arena arena;
  JsonDocument doc;
  lib::build(doc.to<JsonVariant>(), v, s, arena);
  for (int k = 0; k < 6; k++) doc.add(gen::gen_double(s, true));
  // items whose MessagePack encoding carries an explicit length field
  doc.add(std::string(32 + (size_t)s.below(300), (char)('a' + s.below(26))));
  {
    std::string payload((size_t)s.below(40), (char)s.below(256));
    doc.add(MsgPackBinary(payload.data(), payload.size()));
    doc.add(MsgPackExtension((int8_t)s.below(100), payload.data(), payload.size()));
    JsonArray big = doc.add<JsonArray>();
    for (int k = 0; k < 20; k++) big.add(k * 1000);
  }
  std::string j, p, m;
#ifndef VERIF_TSAN
  g_in_fser.fetch_add(1, std::memory_order_relaxed);
  if (g_in_deser.load(std::memory_order_relaxed) > 0) g_overlap.store(1, std::memory_order_relaxed);
#endif
  serializeJson(doc, j);
  serializeJsonPretty(doc, p);
  serializeMsgPack(doc, m);
#ifndef VERIF_TSAN
  g_in_fser.fetch_sub(1, std::memory_order_relaxed);
#endif
  tr += "J" + j + "P" + std::to_string(cs::hash_str(p)) + "M" + cs::hex_bytes(m, 4000);
  // 3. deserialize both formats, with and without a filter taken from the shared document
#ifndef VERIF_TSAN
  g_in_deser.fetch_add(1, std::memory_order_relaxed);
  if (g_in_fser.load(std::memory_order_relaxed) > 0) g_overlap.store(1, std::memory_order_relaxed);
#endif
  {
    JsonDocument d1, d2, d3, d4;
    DeserializationError e1 = deserializeJson(d1, j, DeserializationOption::NestingLimit(20));
    DeserializationError e2 = deserializeMsgPack(d2, m.data(), m.size(), DeserializationOption::NestingLimit(20));
    JsonVariantConst filter = sroot["filter"];
    DeserializationError e3 = deserializeJson(d3, j, DeserializationOption::Filter(filter), DeserializationOption::NestingLimit(20));
    DeserializationError e4 = deserializeMsgPack(d4, m.data(), m.size(), DeserializationOption::Filter(filter), DeserializationOption::NestingLimit(20));
    std::string t1, t2, t3, t4;
    serializeJson(d1, t1);
    serializeMsgPack(d2, t2);
    serializeJson(d3, t3);
    serializeJson(d4, t4);
    tr += std::string("D") + e1.c_str() + e2.c_str() + e3.c_str() + e4.c_str() + t1 + cs::hex_bytes(t2, 4000) + t3 + t4;
    tr += d2 == d1 ? "=" : "!";
  }
#ifndef VERIF_TSAN
  g_in_deser.fetch_sub(1, std::memory_order_relaxed);
#endif
  // 3b. a generated spelling with \uXXXX escapes, surrogate pairs, comments-free dialect forms
  {
    gen::Opts so;
    so.utf8_only = true;
    so.max_depth = 3;
    Val sv = gen::gen_value(s, so);
    gen::attach_float_literals(s, sv, 30);
    gen::Spell sp;
    sp.strict = s.coin();
    std::string text = gen::spell_document(s, sp, sv);
    // force at least one non-ASCII escape of every UTF-8 length
    text = "[" + text + ",\"\\u00e9\\u20ac\\ud83d\\ude00\\u0041\"]";
    JsonDocument d;
    DeserializationError e = deserializeJson(d, text, DeserializationOption::NestingLimit(20));
    std::string t;
    serializeMsgPack(d, t);
    tr += std::string("U") + e.c_str() + cs::hex_bytes(t, 4000);
  }
  // 4. the shared document as copy source and comparison operand
  {
    JsonDocument c;
    c.set(sroot["data"]);
    c["mine"] = seed;
    JsonDocument c2(*shared.doc);
    std::string t;
    serializeJson(c, t);
    tr += "C" + t;
    tr += c["mine"] == sroot["data"] ? "e" : "n";
    tr += c2 == *shared.doc ? "E" : "N";
    tr += sroot["data"][0] < 5 ? "<" : ">";
    char b[64];
    snprintf(b, sizeof b, "%d %.17g %s", sroot["data"][1].as<int>(), sroot["num"].as<double>(), sroot["str"].as<const char*>());
    tr += b;
    tr += std::to_string(sroot["numstr"].as<double>()) + std::to_string(sroot["numstr"].as<long long>());
    size_t n = measureJson(*shared.doc) + measureMsgPack(*shared.doc) + shared.doc->nesting() + shared.doc->size();
    tr += std::to_string(n);
  }
  // 5. number conversions and parsing
  {
    JsonDocument d;
    std::string lit = gen::gen_float_literal(s, 30);
    deserializeJson(d, "[" + lit + "]");
    char b[64];
    snprintf(b, sizeof b, "%.17g|%lld", d[0].as<double>(), d[0].as<long long>());
    tr += b;
    d.set(lit);
    snprintf(b, sizeof b, "|%.17g", d.as<double>());
    tr += b;
  }
  return tr;
}

static void run_case(cs::Src& s, cs::Ctx& ctx) {
  ctx.evaluations++;
  static const size_t TN[] = {2, 4, 8};
  size_t nthreads = TN[s.below(3)];
  unsigned repeats = (unsigned)ctx.param_u("repeats", 50);
  // the shared, read-only document
  JsonDocument shared_doc;
  {
    gen::Opts go;
    go.top_container = true;
    go.utf8_only = true;
    Val data = gen::gen_value(s, go);
    lib::Arena arena;
    static const char* F[] = {"true", "{\"a\":true,\"*\":[true]}", "[true]", "[{\"a\":true,\"b\":{\"*\":true}}]", "{\"*\":true}"};
    deserializeJson(shared_doc["filter"], F[s.below(5)]);
    JsonDocument tmp;
    lib::build(tmp.to<JsonVariant>(), data, s, arena);
    shared_doc["data"][0] = 3;
    shared_doc["data"][1] = (int)s.irange(-100, 100);
    shared_doc["data"][2] = tmp;  // deep copy: nothing linked into the arena survives
    shared_doc["num"] = gen::gen_double(s, false);
    shared_doc["str"] = std::string("shared text");
    shared_doc["numstr"] = std::string("12345.678");
    std::string mp;
    serializeMsgPack(shared_doc, mp);
    JsonDocument clean;
    deserializeMsgPack(clean, mp.data(), mp.size(), DeserializationOption::NestingLimit(50));
    shared_doc = clean;  // owns every string
  }
  const JsonDocument& shared_const = shared_doc;
  Shared shared{&shared_const};
  std::vector<uint64_t> seeds;
  for (size_t t = 0; t < nthreads; t++) seeds.push_back(s.bits64());
  std::string before;
  serializeJson(shared_doc, before);
  ctx.current_rendering = "threads=" + std::to_string(nthreads) + " repeats=" + std::to_string(repeats) + " shared=" + before.substr(0, 300);
  // sequential transcripts
  std::vector<std::string> expect;
  for (size_t t = 0; t < nthreads; t++) {
    try {
      expect.push_back(program(seeds[t], shared, ctx.active_known));
    } catch (cs::Failure& f) {
      ctx.fail("sequential-" + f.kind, f.message);
    }
  }
  // concurrent runs
  std::vector<std::string> errors(nthreads);
  std::atomic<int> ready{0};
  std::atomic<bool> go{false};
  std::vector<std::thread> threads;
  std::vector<std::string> known = ctx.active_known;
  for (size_t t = 0; t < nthreads; t++) {
    threads.emplace_back([&, t]() {
      ready.fetch_add(1);
      while (!go.load()) std::this_thread::yield();  // start barrier (the only synchronisation besides join)
      for (unsigned r = 0; r < repeats && errors[t].empty(); r++) {
        try {
          std::string got = program(seeds[t], shared, known);
          if (got != expect[t]) {
            size_t k = 0;
            while (k < got.size() && k < expect[t].size() && got[k] == expect[t][k]) k++;
            errors[t] = "thread " + std::to_string(t) + " repetition " + std::to_string(r) + ": transcript differs from the sequential run at offset " +
                        std::to_string(k) + ": ..." + got.substr(k > 40 ? k - 40 : 0, 120) + " vs ..." + expect[t].substr(k > 40 ? k - 40 : 0, 120);
          }
        } catch (cs::Failure& f) {
          errors[t] = "thread " + std::to_string(t) + ": " + f.kind + ": " + f.message;
        } catch (lib::ObserveError& e) {
          errors[t] = "thread " + std::to_string(t) + ": observation: " + e.what;
        }
      }
    });
  }
  while (ready.load() < (int)nthreads) std::this_thread::yield();
  go.store(true);
  for (auto& th : threads) th.join();
  ctx.executions += nthreads * repeats;
  for (auto& e : errors)
    if (!e.empty()) ctx.fail("not-as-if-sequential", e);
  std::string after;
  serializeJson(shared_doc, after);
  if (after != before) ctx.fail("shared-document-changed", "the read-only shared document changed: " + after.substr(0, 300));
#ifndef VERIF_TSAN
  bool overlapped = g_overlap.exchange(0) != 0;
  if (overlapped) ctx.nontrivial(cs::hash_u64(seeds[0] ^ nthreads));
  else ctx.trivial++;
  if (overlapped) ctx.label("deserialization-overlapped-float-serialization");
#else
  ctx.nontrivial(cs::hash_u64(seeds[0] ^ nthreads));
  ctx.label("tsan-case");
#endif
  ctx.label("threads-" + std::to_string(nthreads));
  if (ctx.want_sample()) ctx.sample(ctx.current_rendering);
}

// a deliberately racy "library" pattern is not part of the witness list: the witness below only
// checks that the harness itself is quiet under the sanitizer
// cold start: the very first documents of the process are created by concurrently running threads
// (lazily initialised library state would be touched by all of them at once); the transcripts are
// compared with sequential runs made afterwards
static void witness(const std::string& name, cs::Ctx& ctx) {
  if (name != "cold_start") ctx.fail("witness", "unknown witness " + name);
  // the shared document must not touch the default allocator before the threads do; copies of it
  // made by the threads inherit its allocator, which therefore has to be stateless
  struct PlainAllocator : ArduinoJson::Allocator {
    void* allocate(size_t n) override { return malloc(n); }
    void deallocate(void* p) override { free(p); }
    void* reallocate(void* p, size_t n) override { return realloc(p, n); }
  };
  static PlainAllocator plain;
  JsonDocument shared_doc(&plain);
  DeserializationError e = deserializeJson(
      shared_doc, "{\"filter\":{\"a\":true,\"*\":[true]},\"data\":[3,-7,{\"a\":[1,2],\"b\":\"x\"}],\"num\":1.5,\"str\":\"shared text\",\"numstr\":\"12345.678\"}");
  if (e) ctx.fail("witness", "shared document could not be built");
  const JsonDocument& shared_const = shared_doc;
  Shared shared{&shared_const};
  const size_t nthreads = 8;
  std::vector<uint64_t> seeds;
  for (size_t t = 0; t < nthreads; t++) seeds.push_back(0x9E3779B97F4A7C15ull * (t + 1));
  std::vector<std::string> got(nthreads), errors(nthreads);
  std::atomic<int> ready{0};
  std::atomic<bool> go{false};
  std::vector<std::thread> threads;
  std::vector<std::string> known = ctx.active_known;
  for (size_t t = 0; t < nthreads; t++) {
    threads.emplace_back([&, t]() {
      ready.fetch_add(1);
      while (!go.load()) std::this_thread::yield();
      try {
        got[t] = program(seeds[t], shared, known);
      } catch (cs::Failure& f) {
        errors[t] = f.kind + ": " + f.message;
      } catch (lib::ObserveError& oe) {
        errors[t] = "observation: " + oe.what;
      }
    });
  }
  while (ready.load() < (int)nthreads) std::this_thread::yield();
  go.store(true);
  for (auto& th : threads) th.join();
  for (size_t t = 0; t < nthreads; t++) {
    if (!errors[t].empty()) ctx.fail("not-as-if-sequential", "cold start, thread " + std::to_string(t) + ": " + errors[t]);
    std::string expect = program(seeds[t], shared, known);
    if (expect != got[t]) ctx.fail("not-as-if-sequential", "cold start, thread " + std::to_string(t) + ": transcript differs from the sequential run");
  }
}

static cs::PropDef PROP = {"C20", run_case, nullptr, witness};
CS_MAIN(PROP)
