// C13 — typed extraction is exact when it fits and zero otherwise, never undefined.
#include <ArduinoJson.h>

#include <cfloat>
#include <limits>

#include "../engine/runner.hpp"
#include "../gen/values.hpp"
#include "../ref/num_ref.hpp"
#include "known.hpp"

using namespace ArduinoJson;
using ref::Val;
typedef __int128 i128;

struct Stored {
  bool is_int;
  i128 iv;    // when is_int
  double dv;  // when !is_int
  const char* kind;
};

static std::string describe(const Stored& s) {
  char b[160];
  if (s.is_int) {
    bool neg = s.iv < 0;
    unsigned long long m = (unsigned long long)(neg ? -s.iv : s.iv);
    snprintf(b, sizeof b, "stored %s %s%llu", s.kind, neg ? "-" : "", m);
  } else {
    uint64_t bits;
    memcpy(&bits, &s.dv, 8);
    snprintf(b, sizeof b, "stored %s %.17g (0x%016llx)", s.kind, s.dv, (unsigned long long)bits);
  }
  return b;
}

static uint64_t g_zone_between = 0;

template <typename T>
static inline void check_int_target(cs::Ctx& ctx, JsonVariantConst v, const Stored& s, const char* tname) {
  T got = v.as<T>();
  bool is = v.is<T>();
  const T dflt = (T)41;
  T orv = v | dflt;
  const i128 lo = (i128)std::numeric_limits<T>::min(), hi = (i128)std::numeric_limits<T>::max();
  if (s.is_int) {
    bool fits = s.iv >= lo && s.iv <= hi;
    T want = fits ? (T)s.iv : (T)0;
    if (got != want)
      ctx.fail("as-integral", describe(s) + ": as<" + tname + ">() = " + std::to_string((long long)got) + ", expected " + std::to_string((long long)want));
    if (is != fits) ctx.fail("is-integral", describe(s) + ": is<" + tname + ">() = " + (is ? "true" : "false"));
    if (orv != (fits ? want : dflt)) ctx.fail("operator-or", describe(s) + ": (v | default) disagrees with is/as for " + tname);
  } else {
    if (is) ctx.fail("is-integral", describe(s) + ": is<" + tname + ">() is true for a floating-point value");
    if (orv != dflt) ctx.fail("operator-or", describe(s) + ": (v | default) ignores is<T>() for " + tname);
    long double d = s.dv;
    long double flo = (long double)lo, fhi = (long double)hi;
    if (std::isnan(s.dv)) {
      if (got != 0) ctx.fail("as-integral", describe(s) + ": as<" + tname + ">() of NaN is not 0");
    } else if (d >= fhi + 1 || d <= flo - 1) {
      if (got != 0) ctx.fail("as-integral", describe(s) + ": out of range but as<" + tname + ">() = " + std::to_string((long long)got));
    } else if (d > fhi || d < flo) {
      g_zone_between++;
      T t = (T)(d > 0 ? fhi : flo);
      if (got != 0 && got != t) ctx.fail("as-integral", describe(s) + ": fractional value next to the limit gave neither 0 nor the limit for " + tname);
    } else {
      T want = (T)truncl(d);
      if (got != want)
        ctx.fail("as-integral", describe(s) + ": as<" + tname + ">() = " + std::to_string((long long)got) + ", expected " + std::to_string((long long)want));
    }
  }
}

template <typename T>
static inline void check_float_target(cs::Ctx& ctx, JsonVariantConst v, const Stored& s, const char* tname) {
  T got = v.as<T>();
  T want = s.is_int ? (T)(long double)s.iv : (T)s.dv;
  bool same = (std::isnan(got) && std::isnan(want)) || (got == want && std::signbit(got) == std::signbit(want));
  if (!same) {
    char b[120];
    snprintf(b, sizeof b, ": as<%s>() = %.17g, expected %.17g", tname, (double)got, (double)want);
    ctx.fail("as-floating", describe(s) + b);
  }
  if (!v.is<T>()) ctx.fail("is-floating", describe(s) + ": is<" + tname + ">() is false for a number");
}

static inline void check_all_targets(cs::Ctx& ctx, JsonVariantConst v, const Stored& s) {
  check_int_target<signed char>(ctx, v, s, "signed char");
  check_int_target<unsigned char>(ctx, v, s, "unsigned char");
  check_int_target<short>(ctx, v, s, "short");
  check_int_target<unsigned short>(ctx, v, s, "unsigned short");
  check_int_target<int>(ctx, v, s, "int");
  check_int_target<unsigned int>(ctx, v, s, "unsigned int");
  check_int_target<long>(ctx, v, s, "long");
  check_int_target<unsigned long>(ctx, v, s, "unsigned long");
  check_int_target<long long>(ctx, v, s, "long long");
  check_int_target<unsigned long long>(ctx, v, s, "unsigned long long");
  check_float_target<float>(ctx, v, s, "float");
  check_float_target<double>(ctx, v, s, "double");
  bool b = v.as<bool>();
  bool wantb = s.is_int ? s.iv != 0 : s.dv != 0;
  if (b != wantb) ctx.fail("as-bool", describe(s) + ": as<bool>() wrong");
  ctx.executions++;
}

static void check_i32(cs::Ctx& ctx, JsonDocument& doc, int32_t x) {
  doc.set(x);
  Stored s{true, x, 0, "int32"};
  check_all_targets(ctx, doc.as<JsonVariantConst>(), s);
}
static void check_u32(cs::Ctx& ctx, JsonDocument& doc, uint32_t x) {
  doc.set(x);
  Stored s{true, x, 0, "uint32"};
  check_all_targets(ctx, doc.as<JsonVariantConst>(), s);
}
static void check_f32(cs::Ctx& ctx, JsonDocument& doc, float x) {
  doc.set(x);
  Stored s{false, 0, (double)x, "float"};
  check_all_targets(ctx, doc.as<JsonVariantConst>(), s);
}
static void check_i64(cs::Ctx& ctx, JsonDocument& doc, int64_t x) {
  doc.set(x);
  Stored s{true, x, 0, "int64"};
  check_all_targets(ctx, doc.as<JsonVariantConst>(), s);
}
static void check_u64(cs::Ctx& ctx, JsonDocument& doc, uint64_t x) {
  doc.set(x);
  Stored s{true, (i128)x, 0, "uint64"};
  check_all_targets(ctx, doc.as<JsonVariantConst>(), s);
}
static void check_f64(cs::Ctx& ctx, JsonDocument& doc, double x) {
#if !ARDUINOJSON_USE_DOUBLE
  // JsonFloat is float: the stored number is the float nearest to x (kept in range: the narrowing
  // of an out-of-range double is not defined by the language)
  if (std::isfinite(x)) {
    if (fabs(x) > FLT_MAX) x = x < 0 ? -FLT_MAX : FLT_MAX;
    x = (double)(float)x;
  }
#endif
  doc.set(x);
  Stored s{false, 0, x, "double"};
  check_all_targets(ctx, doc.as<JsonVariantConst>(), s);
}

// numeric strings: same rules applied to the value the text denotes
static void check_string(cs::Ctx& ctx, const std::string& text, bool linked) {
  JsonDocument doc;
  if (linked) doc.set(text.c_str());
  else doc.set(text);
  JsonVariantConst v = doc.as<JsonVariantConst>();
  numref::Literal L;
  Val exact;
  Stored s;
  std::string k = std::string(linked ? "linked" : "copied") + " string " + cs::quote_bytes(text, 80);
  if (numref::parse_strict_lenient(text, L)) {
    if (numref::exact_integer(L, exact)) {
      s = Stored{true, exact.neg ? -(i128)exact.mag : (i128)exact.mag, 0, "numeric string"};
    } else {
      // the accuracy of the parsed double is judged by C12; here the conversion from it must follow
      // the rules, and the value must at least be the number the text denotes (same rules whatever
      // the length): zero stays zero, values inside [1e-300, 1e300] are finite and within 1e-6
      s = Stored{false, 0, v.as<double>(), "numeric string"};
#if ARDUINOJSON_USE_DOUBLE
      {
        long double ref = strtold(text.c_str(), nullptr);
        double got = v.as<double>();
        if (numref::mantissa_is_zero(L)) {
          if (got != 0) ctx.fail("string-as-floating", k + ": a zero literal converts to " + std::to_string(got));
        } else if (fabsl(ref) >= 1e-300L && fabsl(ref) <= 1e300L) {
          if (!std::isfinite(got) || fabsl(ref - (long double)got) > 1e-6L * fabsl(ref))
            ctx.fail("string-as-floating", k + ": as<double>() = " + std::to_string(got) + " is not the value of the text");
        }
      }
#endif
    }
  } else {
    // not a number of the documented grammar: as<T>() is 0 for words; spellings the scanner
    // tolerates ("1e", ".") are not judged
    if (numref::tolerated_spelling(text)) {
      ctx.unspecified("tolerated-number-spelling-in-string");
      v.as<int>();
      v.as<double>();
      return;
    }
    if (text.find('\0') != std::string::npos) {
      ctx.unspecified("string-with-nul");
      v.as<long long>();
      v.as<double>();
      return;
    }
    // leading sign followed by n/N/i/I would be NaN/Infinity in builds that enable them
    s = Stored{true, 0, 0, "non-numeric string"};
  }
  // strings never report a numeric type
  if (v.is<int>() || v.is<double>() || v.is<unsigned long long>() || v.is<float>())
    ctx.fail("is-on-string", k + " reports a numeric type");
  ctx.current_rendering = k;
  // as<T>() for strings: integral targets by the integer/float rules; floating targets nearest
#define STR_INT(T, name)                                                                               \
  {                                                                                                    \
    T got = v.as<T>();                                                                                 \
    const i128 lo = (i128)std::numeric_limits<T>::min(), hi = (i128)std::numeric_limits<T>::max();     \
    if (s.is_int) {                                                                                    \
      T want = (s.iv >= lo && s.iv <= hi) ? (T)s.iv : (T)0;                                            \
      if (got != want) ctx.fail("string-as-integral", k + ": as<" name ">() = " + std::to_string((long long)got) + " expected " + std::to_string((long long)want)); \
    } else {                                                                                           \
      long double d = s.dv;                                                                            \
      if (std::isnan(s.dv) || d >= (long double)hi + 1 || d <= (long double)lo - 1) {                  \
        if (got != 0) ctx.fail("string-as-integral", k + ": out of range but as<" name ">() != 0");    \
      } else if (d > (long double)hi || d < (long double)lo) {                                         \
        g_zone_between++;                                                                              \
      } else if (got != (T)truncl(d))                                                                  \
        ctx.fail("string-as-integral", k + ": as<" name ">() is not the truncated value");             \
    }                                                                                                  \
  }
  STR_INT(signed char, "signed char")
  STR_INT(unsigned char, "unsigned char")
  STR_INT(short, "short")
  STR_INT(unsigned short, "unsigned short")
  STR_INT(int, "int")
  STR_INT(unsigned int, "unsigned int")
  STR_INT(long long, "long long")
  STR_INT(unsigned long long, "unsigned long long")
#undef STR_INT
  if (s.is_int) {
    double gd = v.as<double>();
    long double want = (long double)s.iv;
    if (fabsl(want - gd) > 1e-13L * fabsl(want)) ctx.fail("string-as-floating", k + ": as<double>() is off");
    float gf = v.as<float>();
    if (fabsl(want - gf) > 1e-6L * fabsl(want)) ctx.fail("string-as-floating", k + ": as<float>() is off");
  } else {
    float gf = v.as<float>();
    long double want = s.dv;
    if (std::isfinite(s.dv) && fabsl(want) < 3e38L && fabsl(want) > 1e-37L && fabsl(want - gf) > 1e-6L * fabsl(want))
      ctx.fail("string-as-floating", k + ": as<float>() differs from as<double>()");
  }
  ctx.executions++;
}

// ---------------------------------------------------------------- copyArray
template <typename T>
static void check_copy_1d(cs::Ctx& ctx, cs::Src& s) {
  size_t m = (size_t)s.below(9), n = (size_t)s.below(9);
  JsonDocument doc;
  JsonArray a = doc.to<JsonArray>();
  std::vector<long long> vals;
  for (size_t i = 0; i < m; i++) {
    long long x = s.irange(-300, 300);
    vals.push_back(x);
    a.add(x);
  }
  T* dst = static_cast<T*>(malloc(n * sizeof(T) ? n * sizeof(T) : 1));  // exact block: ASan guards both ends
  for (size_t i = 0; i < n; i++) dst[i] = (T)77;
  size_t r = copyArray(doc.as<JsonArrayConst>(), dst, n);
  size_t want = m < n ? m : n;
  bool ok = r == want;
  for (size_t i = 0; i < n && ok; i++) {
    T expect = (T)77;
    if (i < want) {
      long long x = vals[i];
      expect = (x >= (long long)std::numeric_limits<T>::min() && x <= (long long)std::numeric_limits<T>::max()) ? (T)x : (T)0;
    }
    if (dst[i] != expect) ok = false;
  }
  free(dst);
  ctx.executions++;
  if (!ok) ctx.fail("copyArray", "copyArray(array of " + std::to_string(m) + ", dst of " + std::to_string(n) + ") returned " + std::to_string(r) + " or wrote wrong elements");
}

template <size_t A, size_t B>
static void check_copy_2d(cs::Ctx& ctx, cs::Src& s) {
  JsonDocument doc;
  size_t rows = (size_t)s.below(5);
  std::vector<std::vector<int>> src;
  for (size_t i = 0; i < rows; i++) {
    JsonArray row = doc.add<JsonArray>();
    size_t cols = (size_t)s.below(5);
    src.emplace_back();
    for (size_t j = 0; j < cols; j++) {
      int x = (int)s.irange(-9, 9);
      row.add(x);
      src.back().push_back(x);
    }
  }
  typedef int Arr[A][B];
  Arr* dst = static_cast<Arr*>(malloc(sizeof(Arr)));
  for (size_t i = 0; i < A; i++)
    for (size_t j = 0; j < B; j++) (*dst)[i][j] = 77;
  size_t r = copyArray(doc, *dst);
  bool ok = r == (rows < A ? rows : A);
  for (size_t i = 0; i < A && ok; i++)
    for (size_t j = 0; j < B; j++) {
      int expect = 77;
      if (i < rows && j < src[i].size()) expect = src[i][j];
      if ((*dst)[i][j] != expect) ok = false;
    }
  free(dst);
  ctx.executions++;
  if (!ok) ctx.fail("copyArray-2d", "2-D copyArray wrote outside the rows it was given or returned a wrong count");
}

template <size_t N>
static void check_copy_chars(cs::Ctx& ctx, cs::Src& s) {
  JsonDocument doc;
  std::string str;
  size_t len = (size_t)s.below(2 * N + 2);
  for (size_t i = 0; i < len; i++) str += (char)('a' + s.below(26));
  doc.set(str);
  typedef char Buf[N];
  Buf* dst = static_cast<Buf*>(malloc(N));
  memset(*dst, 0x7E, N);
  copyArray(doc.as<JsonVariantConst>(), *dst);
  size_t want = len < N - 1 ? len : N - 1;
  bool ok = memcmp(*dst, str.data(), want) == 0 && (*dst)[want] == 0;
  for (size_t i = want + 1; i < N; i++)
    if ((*dst)[i] != 0x7E) ok = false;
  free(dst);
  ctx.executions++;
  if (!ok) ctx.fail("copyArray-chars", "copyArray(variant, char[N]) did not store the truncated, terminated string");
}

// ---------------------------------------------------------------- generated cases
static uint64_t boundary_u64(cs::Src& s) {
  unsigned k = (unsigned)s.range(0, 64);
  uint64_t base = k == 64 ? 0 : (1ull << k);
  return base + (uint64_t)s.irange(-3, 3);
}

static double boundary_double(cs::Src& s) {
  static const unsigned w[] = {5, 4, 2, 2};
  double d;
  switch (s.pick(w)) {
    case 0: {  // +-2^k +- {0, 0.5, 1, 2} and neighbours
      int k = (int)s.irange(0, 64);
      d = std::ldexp(1.0, k);
      static const double off[] = {0, 0.5, -0.5, 1, -1, 2, -2, 0.25, 1.5, -1.5};
      d += off[s.below(10)];
      int steps = (int)s.irange(-2, 2);
      for (int i = 0; i < (steps < 0 ? -steps : steps); i++) d = std::nextafter(d, steps < 0 ? -INFINITY : INFINITY);
      if (s.coin()) d = -d;
      break;
    }
    case 1: {  // type limits +- halves
      static const double L[] = {127, 128, 255, 256, 32767, 32768, 65535, 65536, 2147483647.0, 2147483648.0, 4294967295.0,
                                 4294967296.0, 9223372036854775807.0, 18446744073709551615.0, 129, -129, -32769, -2147483649.0};
      d = L[s.below(sizeof L / sizeof L[0])] + (double)s.irange(-2, 2) * 0.5;
      if (s.coin()) d = -d;
      break;
    }
    case 2: {
      static const double N[] = {NAN, INFINITY, -INFINITY, 0.0, -0.0, 4.9e-324, -4.9e-324, DBL_MAX, -DBL_MAX, DBL_MIN, 0.999999, -0.999999, 1e19, 1e20, -1e19};
      d = N[s.below(sizeof N / sizeof N[0])];
      break;
    }
    default: d = gen::gen_double(s, true);
  }
  return d;
}

static std::string gen_numeric_string(cs::Src& s) {
  static const unsigned w[] = {4, 3, 3, 2, 2};
  switch (s.pick(w)) {
    case 0: {
      Val i = gen::gen_int(s);
      return (i.neg ? "-" : "") + std::string((size_t)s.below(3), '0') + std::to_string((unsigned long long)i.mag);
    }
    case 1: {
      double d = boundary_double(s);
      if (!std::isfinite(d)) d = 255.5;
      char b[40];
      snprintf(b, sizeof b, s.coin() ? "%.17g" : "%.3f", d);
      return b;
    }
    case 2: {  // long digit strings
      size_t n = 1 + (size_t)s.below(s.coin() ? 40 : 1200);
      std::string t;
      for (size_t i = 0; i < n; i++) t += (char)('0' + s.below(10));
      if (s.coin()) t.insert((size_t)s.below(t.size() + 1), ".");
      if (s.coin()) t += "e" + std::to_string(s.irange(-700, 700));
      if (s.coin()) t = "-" + t;
      return t;
    }
    case 3: if (s.coin()) {  // type limits written as float-class literals
      unsigned k = (unsigned)s.range(7, 64);
      unsigned __int128 v = ((unsigned __int128)1 << k) + (unsigned)s.below(3) - 1;
      std::string t;
      while (v) {
        t.insert(t.begin(), (char)('0' + (int)(v % 10)));
        v /= 10;
      }
      static const char* suf[] = {".0", ".5", "e0", ".00", "E+0", ".9999"};
      t += suf[s.below(6)];
      if (s.coin()) t = "-" + t;
      return t;
    } else {
      static const char* W[] = {"", "abc", "true", "null", "-", "+", "e5", "0x10", " 1", "1 ", "1,5", "--1", "1e5x", "१२"};
      return W[s.below(sizeof W / sizeof W[0])];
    }
    default: {
      static const char* T[] = {"1e", "1e+", ".", "-.", ".5", "5.", "+7", "1E5", "1e-400", "1e400", "00012", "-0", "0.0", "-0.0"};
      return T[s.below(sizeof T / sizeof T[0])];
    }
  }
}

static void run_case(cs::Src& s, cs::Ctx& ctx) {
  ctx.evaluations++;
  JsonDocument doc;
  static const unsigned w[] = {3, 3, 3, 3, 3, 4, 4, 2};
  unsigned c = (unsigned)s.pick(w);
  char b[96];
  bool nontrivial = true;
  switch (c) {
    case 0: {
      int32_t x = (int32_t)(uint32_t)boundary_u64(s);
      if (s.coin()) x = (int32_t)s.below(1ull << 32);
      snprintf(b, sizeof b, "int32 %d", x);
      ctx.current_rendering = b;
      check_i32(ctx, doc, x);
      break;
    }
    case 1: {
      uint32_t x = (uint32_t)boundary_u64(s);
      if (s.coin()) x = (uint32_t)s.below(1ull << 32);
      snprintf(b, sizeof b, "uint32 %u", x);
      ctx.current_rendering = b;
      check_u32(ctx, doc, x);
      break;
    }
    case 2: {
      float x = (float)boundary_double(s);
      if (s.coin()) x = gen::bits_to_float((uint32_t)s.below(1ull << 32));
      snprintf(b, sizeof b, "float %.9g", (double)x);
      ctx.current_rendering = b;
      check_f32(ctx, doc, x);
      break;
    }
    case 3: {
      int64_t x = (int64_t)boundary_u64(s);
      if (s.coin()) x = (int64_t)((uint64_t)0 - (uint64_t)x);
      if (s.chance(1, 4)) x = (int64_t)s.bits64();
      snprintf(b, sizeof b, "int64 %lld", (long long)x);
      ctx.current_rendering = b;
      check_i64(ctx, doc, x);
      break;
    }
    case 4: {
      uint64_t x = boundary_u64(s);
      if (s.chance(1, 4)) x = s.bits64();
      snprintf(b, sizeof b, "uint64 %llu", (unsigned long long)x);
      ctx.current_rendering = b;
      check_u64(ctx, doc, x);
      break;
    }
    case 5: {
      double x = boundary_double(s);
      snprintf(b, sizeof b, "double %.17g", x);
      ctx.current_rendering = b;
      check_f64(ctx, doc, x);
      break;
    }
    case 6: {
      std::string t = gen_numeric_string(s);
      ctx.current_rendering = "string " + cs::quote_bytes(t, 200);
      check_string(ctx, t, false);
      if (t.find('\0') == std::string::npos) check_string(ctx, t, true);
      snprintf(b, sizeof b, "%s", "");
      ctx.nontrivial_str("s" + t);
      ctx.label("numeric-string");
      return;
    }
    default: {
      ctx.current_rendering = "copyArray";
      switch (s.below(8)) {
        case 0: check_copy_1d<int>(ctx, s); break;
        case 1: check_copy_1d<signed char>(ctx, s); break;
        case 2: check_copy_1d<unsigned short>(ctx, s); break;
        case 3: check_copy_2d<2, 3>(ctx, s); break;
        case 4: check_copy_2d<3, 1>(ctx, s); break;
        case 5: check_copy_chars<1>(ctx, s); break;
        case 6: check_copy_chars<4>(ctx, s); break;
        default: check_copy_chars<16>(ctx, s); break;
      }
      ctx.label("copyArray");
      ctx.nontrivial(cs::hash_u64(s.consumed() * 1315423911ull + ctx.evaluations));
      return;
    }
  }
  (void)nontrivial;
  ctx.label(std::string("stored-") + (c == 0 ? "int32" : c == 1 ? "uint32" : c == 2 ? "float" : c == 3 ? "int64" : c == 4 ? "uint64" : "double"));
  ctx.nontrivial_str(ctx.current_rendering);
  if (ctx.want_sample()) ctx.sample(ctx.current_rendering);
}

// ---------------------------------------------------------------- sweeps
static void sweep(cs::Ctx& ctx, uint64_t shard, uint64_t nshards) {
  JsonDocument doc;
  bool full = ctx.param_u("all32", 0) != 0;
  uint64_t stride = full ? 1 : ctx.param_u("stride", 65521);
  uint64_t offset = full ? 0 : cs::mix(ctx.param_u("seed", 1), 13) % stride;
  char b[48];
  // (1) strided / complete sweep of the three 32-bit storage kinds
  uint64_t total = ((1ull << 32) + stride - 1) / stride;
  for (uint64_t k = shard; k < total; k += nshards) {
    uint64_t v = k * stride + offset;
    if (v >= (1ull << 32)) break;
    uint32_t bits = (uint32_t)v;
    snprintf(b, sizeof b, "bits32:0x%08x", bits);
    cs::failing_input() = b;
    check_i32(ctx, doc, (int32_t)bits);
    check_u32(ctx, doc, bits);
    check_f32(ctx, doc, gen::bits_to_float(bits));
    ctx.evaluations += 3;
    ctx.counted_nontrivial += 3;
  }
  // (2) every value within 4 of every power of two and type limit, all six storage kinds
  if (shard == 0) {
    for (int k = 0; k <= 64; k++)
      for (int off = -4; off <= 4; off++)
        for (int neg = 0; neg < 2; neg++) {
          unsigned __int128 base = (unsigned __int128)1 << k;
          i128 v = (i128)base + off;
          if (neg) v = -v;
          snprintf(b, sizeof b, "pow2:%d:%d:%d", k, off, neg);
          cs::failing_input() = b;
          if (v >= INT32_MIN && v <= INT32_MAX) check_i32(ctx, doc, (int32_t)v);
          if (v >= 0 && v <= UINT32_MAX) check_u32(ctx, doc, (uint32_t)v);
          if (v >= INT64_MIN && v <= INT64_MAX) check_i64(ctx, doc, (int64_t)v);
          if (v >= 0 && v <= (i128)UINT64_MAX) check_u64(ctx, doc, (uint64_t)v);
          double d = (double)v;
          for (double h : {0.0, 0.5, -0.5}) {
            check_f64(ctx, doc, d + h);
            check_f64(ctx, doc, std::nextafter(d + h, INFINITY));
            check_f64(ctx, doc, std::nextafter(d + h, -INFINITY));
            check_f32(ctx, doc, (float)(d + h));
            check_f32(ctx, doc, std::nextafterf((float)(d + h), INFINITY));
            check_f32(ctx, doc, std::nextafterf((float)(d + h), -INFINITY));
          }
          ctx.evaluations += 22;
          ctx.counted_nontrivial += 22;
        }
  }
  cs::failing_input().clear();
  ctx.labels["zone-fraction-between-limit-and-limit+1"] += g_zone_between;
  ctx.exhaustive_done = full;
}

static void replay_input(const std::string& in, cs::Ctx& ctx) {
  JsonDocument doc;
  ctx.current_rendering = in;
  if (in.rfind("bits32:", 0) == 0) {
    uint32_t bits = (uint32_t)strtoul(in.c_str() + 7, nullptr, 0);
    check_i32(ctx, doc, (int32_t)bits);
    check_u32(ctx, doc, bits);
    check_f32(ctx, doc, gen::bits_to_float(bits));
  }
}

static void witness(const std::string& name, cs::Ctx& ctx) {
  if (name == "linked_string_as_double") {
    // heap over-read in asFloat on a linked string: exact block so ASan sees it
    char* p = static_cast<char*>(malloc(5));
    memcpy(p, "3.25", 5);
    JsonDocument doc;
    doc.set(static_cast<const char*>(p));
    double d = doc.as<double>();
    float f = doc.as<float>();
    free(p);
    if (d != 3.25 || f != 3.25f) ctx.fail("linked-string-as-double", "as<double>() on linked \"3.25\" gave " + std::to_string(d));
    return;
  }
  if (name == "long_numeric_string") {
    check_string(ctx, std::string(700, '9'), false);
    check_string(ctx, std::string(700, '9'), true);
    return;
  }
  ctx.fail("witness", "unknown witness " + name);
}

static cs::PropDef PROP = {"C13", run_case, sweep, witness, replay_input};
CS_MAIN(PROP)
