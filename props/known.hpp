// Predicates of open known findings (see /verif/known_findings.txt). A predicate is evaluated on
// the *case*, never on what the library did, and is only active while its `known:` line exists
// (check.py passes the active names with --known).
#pragma once
#include <cmath>
#include <string>

#include "../engine/cs.hpp"
#include "../ref/num_ref.hpp"
#include "../ref/value.hpp"

namespace known {
using ref::Val;

// KF double_is_float_representable: set(double x) with (double)(float)x == x is stored as a float
// and printed with 6 decimals instead of 9 (C12 print bound for doubles).
inline bool double_is_float_representable(const cs::Ctx& ctx, double x) {
  return ctx.is_known("double_is_float_representable") && std::isfinite(x) && (double)(float)x == x;
}

inline bool float_literal_excluded(cs::Ctx&, const std::string&) { return false; }
inline bool int_literal_excluded(cs::Ctx&, const Val&) { return false; }
inline bool top_number_blank_excluded(cs::Ctx&, const Val&, const std::string&) { return false; }

}  // namespace known
