// C09 — well-formed MessagePack decodes to the value it encodes; malformed is classified.
#include <ArduinoJson.h>

#include <cfloat>

#include "../engine/runner.hpp"
#include "../gen/values.hpp"
#include "../lib/observe.hpp"
#include "../ref/json_ref.hpp"
#include "../ref/msgpack_ref.hpp"

using namespace ArduinoJson;
using ref::Val;

struct SrcWidths : mref::Widths {
  cs::Src* s;
  unsigned bias;  // 0: mostly minimal
  uint64_t choose(uint64_t n) override {
    if (n <= 1) return 0;
    if (s->below(3) != 0) return 0;
    return s->below(n);
  }
};

static int code_of(DeserializationError e) { return (int)e.code(); }
static const char* code_name(int c) {
  static const char* n[] = {"Ok", "EmptyInput", "IncompleteInput", "InvalidInput", "NoMemory", "TooDeep"};
  return c >= 0 && c < 6 ? n[c] : "?";
}

// configured integer range: with USE_LONG_LONG=0 only 32-bit storage kinds exist
static bool int_in_config_range(const Val& v) {
#if ARDUINOJSON_USE_LONG_LONG
  (void)v;
  return true;
#else
  if (v.neg) return v.mag <= 2147483648ull;
  return v.mag <= 4294967295ull;
#endif
}
// With USE_LONG_LONG=0 a value in (INT32_MAX, UINT32_MAX] is stored when it arrives in an unsigned
// encoding and dropped (null) when it arrives in a signed one: "exact or null" are both accepted.
static void relax_to_observed(Val& want, const Val& got) {
#if !ARDUINOJSON_USE_LONG_LONG
  if (want.k == Val::Int && !want.neg && want.mag > 2147483647ull && got.k == Val::Null) want = Val::null();
#endif
  if (want.k == Val::Arr && got.k == Val::Arr)
    for (size_t i = 0; i < want.a.size() && i < got.a.size(); i++) relax_to_observed(want.a[i], got.a[i]);
  if (want.k == Val::Obj && got.k == Val::Obj)
    for (size_t i = 0; i < want.o.size() && i < got.o.size(); i++) relax_to_observed(want.o[i].second, got.o[i].second);
}

static bool num_c09(const Val& w, const Val& g) {
  if (w.k == Val::Int) {
    if (g.k == Val::Int) return w.neg == g.neg && w.mag == g.mag;
    return false;
  }
  // float expected; the document may hold it as float (and an integral float reads back as float)
  if (g.k != Val::Flt && g.k != Val::Int) return false;
  long double y = g.as_ld();
#if ARDUINOJSON_USE_DOUBLE
  if (std::isnan(w.d)) return g.k == Val::Flt && std::isnan(g.d);
  return (long double)w.d == y;
#else
  if (std::isnan(w.d)) return g.k == Val::Flt && std::isnan(g.d);
  if (std::isinf(w.d)) return (double)y == w.d;
  // rounded to float: nearest or next toward zero; beyond float range: +-Inf or +-FLT_MAX
  float nearest = (float)w.d;
  float toward_zero = nearest;
  if (fabs((double)nearest) > fabs(w.d)) toward_zero = std::nextafterf(nearest, 0.0f);
  if (fabs(w.d) > FLT_MAX) return std::isinf((double)y) ? ((y > 0) == (w.d > 0)) : (fabsl(y) == (long double)FLT_MAX && (y > 0) == (w.d > 0));
  if (fabs(w.d) < FLT_MIN) return fabsl(y) <= (long double)FLT_MIN;  // denormal range: not judged finely
  return y == (long double)nearest || y == (long double)toward_zero;
#endif
}

// re-serialization: same rule, except that with USE_LONG_LONG=0 on this LP64 host (JsonInteger is a
// 64-bit long but only 32-bit integer encodings are compiled in) integral floats beyond 32 bits are
// not judged -- an artefact of emulating the 32-bit configuration on a 64-bit host
static bool num_reserialize(const Val& w, const Val& g) {
#if !ARDUINOJSON_USE_LONG_LONG
  if (w.k == Val::Flt && std::isfinite(w.d) && fabs(w.d) > 2147483647.0) return true;
#endif
  return num_c09(w, g);
}

// expected document for an encoded value under the build configuration: out-of-range integers -> null
static Val config_expect(const Val& v) {
  Val r = v;
  if (v.k == Val::Int && !int_in_config_range(v)) return Val::null();
  for (auto& e : r.a) e = config_expect(e);
  for (auto& kv : r.o) kv.second = config_expect(kv.second);
  return r;
}

static int run_lib(cs::Ctx& ctx, JsonDocument& doc, const std::string& bytes, int limit) {
  DeserializationError err = deserializeMsgPack(doc, bytes.data(), bytes.size(), DeserializationOption::NestingLimit((uint8_t)limit));
  ctx.executions++;
  return code_of(err);
}

// judge one input against the reference decoder's verdict
static int judge(cs::Ctx& ctx, const std::string& bytes, int limit, const char* what) {
  JsonDocument doc;
  int code = run_lib(ctx, doc, bytes, limit);
  mref::DResult d = mref::decode(bytes, limit);
  auto fail = [&](const char* kind, const std::string& m) {
    ctx.fail(kind, std::string(what) + ": input " + cs::hex_bytes(bytes, 200) + " limit " + std::to_string(limit) + ": library " + code_name(code) + "; " + m);
  };
  if (bytes.empty()) {
    if (code != DeserializationError::EmptyInput) fail("empty", "expected EmptyInput");
    return code;
  }
  switch (d.status) {
    case mref::D_OK: {
      bool dup = ref::has_duplicate_keys(d.value);
      if (code == DeserializationError::NoMemory) {
        // strings longer than the configured maximum are a capacity limit
        bool longstr = false;
        d.value.walk([&](const Val& n) {
          if ((n.k == Val::Str || n.k == Val::Raw) && n.s.size() > 65535) longstr = true;
          if (n.k == Val::Obj)
            for (auto& kv : n.o)
              if (kv.first.size() > 65535) longstr = true;
        });
        if (longstr) {
          ctx.unspecified("string-above-capacity");
          return code;
        }
      }
      if (code != DeserializationError::Ok) fail("rejected-wellformed", "reference decoder accepts it as one object");
      if (dup) {
        ctx.unspecified("duplicate-map-keys");
        lib::observe(doc.as<JsonVariantConst>());
        return code;
      }
      Val got = lib::observe(doc.as<JsonVariantConst>());
      Val want = config_expect(d.value);
      relax_to_observed(want, got);
      std::string why;
      if (!ref::same(want, got, num_c09, &why)) fail("wrong-value", "document differs from the encoded value: " + why);
      // bin/ext retained byte for byte; the re-serialized document decodes to the same value
      std::string again;
      serializeMsgPack(doc, again);
      mref::DResult d2 = mref::decode(again, 100000);
      if (d2.status != mref::D_OK || d2.consumed != again.size()) fail("reserialize", "re-serialized document is not one MessagePack object");
      why.clear();
      if (!ref::same(want, d2.value, num_reserialize, &why)) fail("reserialize", "re-serialized document denotes another value: " + why);
      if (doc.nesting() > (size_t)limit) fail("nesting", "nesting() above the limit");
      break;
    }
    case mref::D_INCOMPLETE:
      if (code != DeserializationError::IncompleteInput && code != DeserializationError::NoMemory)
        fail("prefix-not-incomplete", "reference decoder says truncated");
      if (code == DeserializationError::NoMemory) ctx.unspecified("truncated-with-declared-length-above-capacity");
      break;
    case mref::D_INVALID_C1:
    case mref::D_NONSTRING_KEY:
      if (code != DeserializationError::InvalidInput) fail("invalid-not-classified", "reference decoder says 0xC1 / non-string key first");
      break;
    case mref::D_TOODEEP:
      if (code != DeserializationError::TooDeep) fail("toodeep-not-classified", "reference decoder says too deep");
      break;
  }
  return code;
}

static void add_binext(Val& v, cs::Src& s) {
  if (v.k == Val::Arr) {
    for (auto& e : v.a) add_binext(e, s);
    if (s.chance(1, 3)) {
      std::string data;
      static const size_t L[] = {0, 1, 2, 4, 8, 16, 17, 255, 256, 3, 5, 300};
      size_t n = L[s.below(12)];
      for (size_t i = 0; i < n; i++) data += (char)s.below(256);
      int width = (int)s.below(4);  // 0 minimal, else forced 1/2/4 (non-minimal allowed)
      if (width == 3) width = 4;
      if (width == 1 && n > 255) width = 2;
      if (s.coin()) v.a.push_back(Val::raw(mref::bin_bytes(data, width)));
      else v.a.push_back(Val::raw(mref::ext_bytes((int8_t)s.below(256), data, width)));
    }
  } else if (v.k == Val::Obj) {
    for (auto& kv : v.o) add_binext(kv.second, s);
  }
}

#if !ARDUINOJSON_USE_DOUBLE || 1
// sub-check: the bit-level float64 -> float32 conversion (ieee754.hpp)
static void check_double_to_float(cs::Ctx& ctx, double v) {
  if (!(fabs(v) >= FLT_MIN && fabs(v) <= FLT_MAX)) return;
  uint64_t bits;
  memcpy(&bits, &v, 8);
  uint8_t in[8], out[4];
  for (int i = 0; i < 8; i++) in[i] = (uint8_t)(bits >> (8 * (7 - i)));
  ArduinoJson::detail::doubleToFloat(in, out);
  uint32_t fb = ((uint32_t)out[0] << 24) | ((uint32_t)out[1] << 16) | ((uint32_t)out[2] << 8) | out[3];
  float f;
  memcpy(&f, &fb, 4);
  float nearest = (float)v;
  float tz = nearest;
  if (fabs((double)nearest) > fabs(v)) tz = std::nextafterf(nearest, 0.0f);
  if (f != nearest && f != tz) {
    char b[160];
    snprintf(b, sizeof b, "doubleToFloat(%.17g) = %.9g, expected %.9g or %.9g", v, (double)f, (double)nearest, (double)tz);
    ctx.fail("doubleToFloat", b);
  }
}
#endif

static void run_case(cs::Src& s, cs::Ctx& ctx) {
  ctx.evaluations++;
  if (s.below(16) == 1) {
    // raw mode: arbitrary bytes (libFuzzer mutates the repository's MessagePack corpus here), judged
    // by the verdict of the reference decoder on those very bytes
    int limit = (int)s.range(0, 32);
    std::string raw = s.take_bytes(400);
    ctx.current_rendering = "raw input: " + cs::hex_bytes(raw, 800) + "\nlimit: " + std::to_string(limit);
    judge(ctx, raw, limit, "raw bytes");
    mref::DResult d = mref::decode(raw, limit);
    if (d.status == mref::D_OK && raw.size() >= 3) ctx.nontrivial_str(raw);
    else ctx.trivial++;
    ctx.label("raw-bytes");
    return;
  }
  gen::Opts o;
  o.utf8_only = false;
  o.nonfinite = true;
  o.long_strings = true;
  o.dup_keys = s.chance(1, 10);
  o.top_container = s.chance(3, 4);
  int limit = 10;
  if (s.chance(1, 8)) {
    o.max_depth = (size_t)s.range(1, 30);
    o.max_children = 2;
    limit = (int)s.range(0, 32);
  }
  if (s.chance(1, 8)) {  // containers with 8..40 children (fix / 16-bit count families)
    o.max_children = 40;
    o.node_budget = 80;
    o.max_depth = 2;
  }
  Val v = gen::gen_value(s, o);
  if (s.chance(1, 3)) add_binext(v, s);
  SrcWidths w;
  w.s = &s;
  mref::EncStats st;
  std::string enc;
  mref::encode(v, enc, w, st);
  ctx.current_rendering = "value: " + ref::render(v) + "\nencoding: " + cs::hex_bytes(enc, 600) + "\nlimit: " + std::to_string(limit);
  // (a) the full encoding
  judge(ctx, enc, limit, "full encoding");
  v.walk([&](const Val& n) {
    if (n.k == Val::Flt && std::isfinite(n.d)) check_double_to_float(ctx, n.d);
  });
  // (b) every proper prefix (all when short, else header offsets + random)
  bool deep = (int)v.nesting() > limit;
  if (!deep) {
    if (enc.size() <= 160) {
      for (size_t n = 0; n < enc.size(); n++) judge(ctx, enc.substr(0, n), limit, "prefix");
    } else {
      for (size_t n = 0; n < 24 && n < enc.size(); n++) judge(ctx, enc.substr(0, n), limit, "prefix");
      for (int i = 0; i < 24; i++) judge(ctx, enc.substr(0, (size_t)s.below(enc.size())), limit, "prefix");
    }
  }
  // (c) single-byte corruptions, judged by the reference decoder's verdict on the corrupted bytes
  size_t ncorr = 4;
  for (size_t i = 0; i < ncorr && !enc.empty(); i++) {
    std::string c = enc;
    size_t pos = (size_t)s.below(c.size());
    static const unsigned char interesting[] = {0xC1, 0xC0, 0x00, 0xFF, 0x90, 0x80, 0xDC, 0xDE, 0xD9, 0xDB, 0xC6, 0xC9, 0xDD, 0xDF, 0xA0, 0xBF, 0xCB};
    c[pos] = (char)(s.coin() ? interesting[s.below(sizeof interesting)] : (unsigned char)s.below(256));
    // huge declared lengths are judged for safety / classification only
    judge(ctx, c, limit, "corruption");
  }
  // (d) 0xC1 at a value position, non-string key
  if (v.k == Val::Arr && !v.a.empty() && !deep) {
    Val copy = v;
    size_t at = (size_t)s.below(copy.a.size());
    copy.a[at] = Val::raw(std::string(1, (char)0xC1));
    std::string e2;
    mref::EncStats st2;
    mref::encode(copy, e2, w, st2);
    JsonDocument doc;
    int code = run_lib(ctx, doc, e2, limit);
    bool deeper_first = false;
    for (size_t i = 0; i < at; i++)
      if ((int)copy.a[i].nesting() + 1 > limit) deeper_first = true;
    if (!deeper_first && limit >= 1 && code != DeserializationError::InvalidInput)
      ctx.fail("c1-not-invalid", "reserved code 0xC1 at a value position gave " + std::string(code_name(code)) + ": " + cs::hex_bytes(e2, 200));
    ctx.label("c1-injected");
  }
  if (v.k == Val::Obj && !v.o.empty() && !deep && limit >= 1) {
    // replace one key by a non-string item
    std::string e2;
    size_t n = v.o.size();
    if (n <= 15) {
      e2 += (char)(0x80 | n);
      size_t at = (size_t)s.below(n);
      bool deeper_first = false;
      for (size_t i = 0; i < n; i++) {
        if (i == at) {
          static const unsigned char K[] = {0x01, 0xC0, 0xC3, 0x90, 0x80, 0xCC, 0xC4, 0xCA, 0xE0, 0xD4};
          e2 += (char)K[s.below(sizeof K)];
          break;
        }
        if ((int)v.o[i].second.nesting() + 1 > limit) deeper_first = true;
        mref::EncStats st2;
        mref::encode_str(v.o[i].first, e2, w, st2);
        mref::encode(v.o[i].second, e2, w, st2);
      }
      JsonDocument doc;
      int code = run_lib(ctx, doc, e2, limit);
      if (!deeper_first && code != DeserializationError::InvalidInput)
        ctx.fail("nonstring-key-not-invalid", "non-string map key gave " + std::string(code_name(code)) + ": " + cs::hex_bytes(e2, 200));
      ctx.label("nonstring-key-injected");
    }
  }
  if (st.nonminimal >= 1 || v.nesting() >= 2) ctx.nontrivial_str(enc);
  else ctx.trivial++;
  if (st.nonminimal) ctx.label("nonminimal-width");
  if (jref::has_raw(v)) ctx.label("has-bin-ext");
  if (ctx.want_sample() && enc.size() < 100 && v.nodes() >= 3) ctx.sample(cs::hex_bytes(enc) + "  = " + ref::render(v, 200));
}

static void witness(const std::string& name, cs::Ctx& ctx) { ctx.fail("witness", "unknown witness " + name); }

static cs::PropDef PROP = {"C09", run_case, nullptr, witness};
CS_MAIN(PROP)
