// C04 — the document is the tree its API describes, after every history.
#include "history_case.hpp"

static void run_case(cs::Src& s, cs::Ctx& ctx) { history_case(s, ctx); }

// witnesses of the aliasing finding: executed in a separate process by the driver
static void witness(const std::string& name, cs::Ctx& ctx) {
  auto expect = [&](JsonDocument& d, const char* want, const char* what) {
    std::string out;
    serializeJson(d, out);
    if (out != want) ctx.fail("alias", std::string(what) + " produced " + out + ", a deep snapshot copy gives " + want);
  };
  if (name == "array_subscript_non_index_variant") {
    // JsonArray::operator[](variant) with a key that is no index designates nothing: no padding
    lib::Ledger ledger;
    ledger.byte_limit = 1u << 20;  // on the unrepaired tree the padding stops here instead of exhausting memory
    JsonDocument d(&ledger);
    JsonArray a = d.to<JsonArray>();
    a.add(1);
    JsonDocument k;
    k.set(-1);
    a[k.as<JsonVariantConst>()] = 5;
    k.set("x");
    a[k.as<JsonVariantConst>()] = 6;
    k.set(1.5);
    a[k.as<JsonVariantConst>()] = 7;
    if (!a[k.as<JsonVariantConst>()].isNull()) ctx.fail("no-such-key", "a[1.5] is not null");
    if (d.size() != 1 || d.overflowed())
      ctx.fail("no-such-key", "a[variant that is not an index] = value changed the array: size " + std::to_string(d.size()) + ", overflowed " + std::to_string(d.overflowed()));
    return;
  }
  if (name == "alias_array_into_own_element") {
    JsonDocument d;
    deserializeJson(d, "[1,2]");
    d[0] = d.as<JsonVariantConst>();  // a[0] = a
    expect(d, "[[1,2],2]", "a[0]=a");
    return;
  }
  if (name == "alias_set_from_own_element") {
    JsonDocument d;
    deserializeJson(d, "[[7],2]");
    JsonVariant a = d.as<JsonVariant>();
    a.set(d[0]);  // a.set(a[0])
    expect(d, "[7]", "a.set(a[0])");
    return;
  }
  if (name == "alias_member_into_own_child") {
    JsonDocument d;
    deserializeJson(d, "{\"a\":{\"k\":1}}");
    d["a"]["new"] = d["a"];  // unbounded recursion on the pinned tree
    expect(d, "{\"a\":{\"k\":1,\"new\":{\"k\":1}}}", "d[a][new]=d[a]");
    return;
  }
  if (name == "alias_self_assign_copied_string") {
    JsonDocument d;
    d["s"] = std::string("copied string, only user");
    d["s"] = d["s"];  // use-after-free on the pinned tree
    expect(d, "{\"s\":\"copied string, only user\"}", "e[s]=e[s]");
    return;
  }
  ctx.fail("witness", "unknown witness " + name);
}

static cs::PropDef PROP = {"C04", run_case, nullptr, witness};
CS_MAIN(PROP)
