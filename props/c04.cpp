// C04 — the document is the tree its API describes, after every history.
#include "history_case.hpp"

static void run_case(cs::Src& s, cs::Ctx& ctx) { history_case(s, ctx); }

// witnesses of the aliasing finding: executed in a separate process by the driver
static void witness(const std::string& name, cs::Ctx& ctx) {
  auto expect = [&](JsonDocument& d, const char* want, const char* what) {
    std::string out;
    serializeJson(d, out);
    if (out != want) ctx.fail("alias", std::string(what) + " produced " + out + ", a deep snapshot copy gives " + want);
  };
  if (name == "alias_array_into_own_element") {
    JsonDocument d;
    deserializeJson(d, "[1,2]");
    d[0] = d.as<JsonVariantConst>();  // a[0] = a
    expect(d, "[[1,2],2]", "a[0]=a");
    return;
  }
  if (name == "alias_set_from_own_element") {
    JsonDocument d;
    deserializeJson(d, "[[7],2]");
    JsonVariant a = d.as<JsonVariant>();
    a.set(d[0]);  // a.set(a[0])
    expect(d, "[7]", "a.set(a[0])");
    return;
  }
  if (name == "alias_member_into_own_child") {
    JsonDocument d;
    deserializeJson(d, "{\"a\":{\"k\":1}}");
    d["a"]["new"] = d["a"];  // unbounded recursion on the pinned tree
    expect(d, "{\"a\":{\"k\":1,\"new\":{\"k\":1}}}", "d[a][new]=d[a]");
    return;
  }
  if (name == "alias_self_assign_copied_string") {
    JsonDocument d;
    d["s"] = std::string("copied string, only user");
    d["s"] = d["s"];  // use-after-free on the pinned tree
    expect(d, "{\"s\":\"copied string, only user\"}", "e[s]=e[s]");
    return;
  }
  ctx.fail("witness", "unknown witness " + name);
}

static cs::PropDef PROP = {"C04", run_case, nullptr, witness};
CS_MAIN(PROP)
