// C05 — allocation failure is reported and never corrupts the document.
// Fault enumeration: a scenario is run fault-free to count its N fallible allocator calls, then
// once per single-failure position k = 1..N, once per fail-from-k schedule, and under 8 random
// multi-failure subsets. Each run is judged by the failure-shape oracle of gen/history_run.hpp.
#include "history_case.hpp"

#include "../gen/json_text.hpp"
#include "../ref/filter_ref.hpp"
#include "../ref/msgpack_ref.hpp"

struct Plan {
  int mode;  // 0 none, 1 nth, 2 from, 3 set
  uint64_t k;
  std::vector<bool> set;
  std::string name() const { return mode == 0 ? "none" : mode == 1 ? "fail-nth(" + std::to_string(k) + ")" : mode == 2 ? "fail-from(" + std::to_string(k) + ")" : "fail-set"; }
};

static void apply_plan(lib::Ledger& l, const Plan& p) {
  switch (p.mode) {
    case 0: l.plan_none(); break;
    case 1: l.plan_nth(p.k); break;
    case 2: l.plan_from(p.k); break;
    default: l.plan_set(p.set);
  }
}

static std::vector<Plan> make_plans(cs::Src& s, uint64_t n, bool* truncated) {
  std::vector<Plan> plans;
  std::vector<uint64_t> ks;
  if (n <= 64) {
    for (uint64_t k = 1; k <= n; k++) ks.push_back(k);
  } else {
    *truncated = true;
    for (int i = 0; i < 64; i++) ks.push_back(1 + s.below(n));
  }
  for (uint64_t k : ks) plans.push_back(Plan{1, k, {}});
  for (uint64_t k : ks) plans.push_back(Plan{2, k, {}});
  for (int i = 0; i < 8 && n >= 2; i++) {
    Plan p{3, 0, std::vector<bool>((size_t)n, false)};
    unsigned dens = 2 + (unsigned)s.below(6);
    for (size_t j = 0; j < p.set.size(); j++) p.set[j] = s.below(dens) == 0;
    plans.push_back(p);
  }
  return plans;
}

// ---------------------------------------------------------------- API history scenario
struct HistoryOutcome {
  uint64_t fallible = 0, refused = 0;
  unsigned outcomes_b = 0, refusal_ops = 0, nonempty = 0;
  std::string log;
};

static HistoryOutcome run_history(cs::Src& src, cs::Ctx& ctx, const hist::Options& o, size_t nops, const Plan& plan) {
  HistoryOutcome out;
  hist::Runner r(src, ctx, o);
  r.faults = plan.mode != 0;
  r.init();
  uint64_t clock = 0;
  for (auto& l : r.worlds[0]->ledgers) {
    l->shared_clock = &clock;
    apply_plan(*l, plan);
  }
  if (plan.mode != 0) r.note("FAULT PLAN " + plan.name());
  for (size_t i = 0; i < nops; i++) r.step();
  hist::World& w = *r.worlds[0];
  out.fallible = clock;
  for (auto& l : w.ledgers) out.refused += l->refused;
  out.outcomes_b = r.fault_outcomes_b;
  out.refusal_ops = r.fault_ops_with_refusal;
  out.nonempty = r.fault_nonempty_before;
  // ---- the end of every run: everything is returned, and the documents work again
  for (auto& l : w.ledgers) l->plan_none();
  for (size_t d = 0; d < o.ndocs; d++) {
    JsonDocument& doc = *w.docs[d];
    doc.clear();
    if (doc.overflowed()) r.fail("overflowed-after-clear", "d" + std::to_string(d) + ": overflowed() still set after clear()");
  }
  for (size_t l = 0; l < w.ledgers.size(); l++)
    if (w.ledgers[l]->live_blocks() != 0)
      r.fail("leak-after-clear", "ledger " + std::to_string(l) + ": " + std::to_string(w.ledgers[l]->live_blocks()) + " block(s) live after clear() of every document");
  for (size_t d = 0; d < o.ndocs; d++) {
    JsonDocument& doc = *w.docs[d];
    doc["k"][1] = std::string("works again, with a string long enough to be allocated");
    doc["n"] = 12345678901234ll;
    doc["a"].add(1.5);
    std::string t;
    serializeJson(doc, t);
    if (t != "{\"k\":[null,\"works again, with a string long enough to be allocated\"],\"n\":12345678901234,\"a\":[1.5]}" || doc.overflowed())
      r.fail("not-usable-after-clear", "d" + std::to_string(d) + " after clear() with allocation restored: " + t);
  }
  w.handles.clear();
  w.docs.clear();
  for (size_t l = 0; l < w.ledgers.size(); l++) {
    if (w.ledgers[l]->live_blocks() != 0) r.fail("leak-after-destruction", "ledger " + std::to_string(l) + " has live blocks after destruction");
    if (!w.ledgers[l]->error.empty()) r.fail("allocator-discipline", w.ledgers[l]->error);
  }
  out.log = r.log;
  return out;
}

static void history_scenario(cs::Src& s, cs::Ctx& ctx) {
  hist::Options o = base_options(ctx);
  o.ndocs = 1 + (size_t)s.below(2);
  o.max_nodes = 40;
  size_t nops = 4 + (size_t)s.below(22);
  // phase 1: fault-free, draws recorded by the outer source
  size_t first_draw = s.draws().size();
  HistoryOutcome base = run_history(s, ctx, o, nops, Plan{0, 0, {}});
  std::vector<cs::Draw> all = s.draws();
  std::vector<cs::Draw> hd(all.begin() + (long)first_draw, all.end());
  uint64_t n = base.fallible;
  ctx.current_rendering = "history scenario (fault-free run, N=" + std::to_string(n) + " fallible calls):" + base.log;
  if (n == 0) {
    ctx.trivial++;
    ctx.label("scenario-without-allocation");
    return;
  }
  bool truncated = false;
  std::vector<Plan> plans = make_plans(s, n, &truncated);
  unsigned nontrivial_positions = 0;
  for (auto& p : plans) {
    cs::Src inner;
    inner.init_replay(hd);
    ctx.current_rendering = "history scenario under " + p.name() + " (N=" + std::to_string(n) + "); fault-free history:" + base.log;
    HistoryOutcome r = run_history(inner, ctx, o, nops, p);
    ctx.executions++;
    if (r.refused && r.nonempty) {
      nontrivial_positions++;
      ctx.nontrivial(cs::hash_str(base.log, cs::hash_u64(p.k * 4 + (uint64_t)p.mode, cs::hash_bytes(p.set.empty() ? "" : "s", 1))) + (p.mode == 3 ? cs::hash_u64(std::hash<std::vector<bool>>()(p.set)) : 0));
    }
    if (r.outcomes_b) ctx.label("failure-shape-outcomes", r.outcomes_b);
  }
  ctx.label("history-scenario");
  ctx.label("fault-runs", plans.size());
  if (truncated) ctx.label("enumeration-sampled(N>64)");
  if (!nontrivial_positions) ctx.trivial++;
  if (ctx.want_sample() && nops < 12) ctx.sample("N=" + std::to_string(n) + " plans=" + std::to_string(plans.size()) + base.log);
}

// ---------------------------------------------------------------- deserialization scenario
struct SrcWidths : mref::Widths {
  cs::Src* s;
  uint64_t choose(uint64_t n) override { return s->below(3) ? 0 : s->below(n); }
};

static bool num_loose(const Val& w, const Val& g) {
  if (w.k == Val::Int) return g.k == Val::Int && w.neg == g.neg && w.mag == g.mag;
  if (g.k != Val::Flt && g.k != Val::Int) return false;
  if (std::isnan(w.d)) return g.k == Val::Flt && std::isnan(g.d);
  long double x = w.d, y = g.as_ld();
  if (fabsl(x) < 1e-300L) return y == 0 || fabsl(x - y) <= 1e-6L * fabsl(x) + 5e-324L;
  if (fabsl(x) > 1e300L) return std::isinf((double)y) || fabsl(x - y) <= 1e-6L * fabsl(x);
  return fabsl(x - y) <= 1e-6L * fabsl(x);
}

static void deser_scenario(cs::Src& s, cs::Ctx& ctx) {
  bool msgpack = s.coin();
  gen::Opts o;
  o.utf8_only = true;
  o.long_strings = (size_t)ArduinoJson::detail::StringNode::maxLength >= 1000;
  if ((size_t)ArduinoJson::detail::StringNode::maxLength < 1000) o.max_str = 20;
  o.node_budget = (size_t)ArduinoJson::detail::NULL_SLOT < 1000 ? 20 : 40;
  o.max_depth = 4;
  o.top_container = true;
  o.nonfinite = false;
  Val v = gen::gen_value(s, o);
  std::string bytes;
  if (msgpack) {
    SrcWidths w;
    w.s = &s;
    mref::EncStats st;
    mref::encode(v, bytes, w, st);
  } else {
    gen::Spell sp;
    sp.strict = s.coin();  // the dialect spellings (unquoted keys, single quotes) have their own string readers
    gen::attach_float_literals(s, v, 30);
    bytes = gen::spell_document(s, sp, v);
  }
  static const char* FILTERS[] = {nullptr, nullptr, "true", "{\"a\":true,\"b\":[true]}", "[{\"*\":true}]", "{\"*\":[true]}"};
  const char* filter = FILTERS[s.below(6)];
  Val expect = ref::merge_duplicates_first_pos(v);
  if (msgpack && ref::has_duplicate_keys(v)) return;
  JsonDocument fdoc;
  if (filter) {
    deserializeJson(fdoc, filter);
    Val f = lib::observe(fdoc.as<JsonVariantConst>());
    bool nul_key = false;
    v.walk([&](const Val& n) {
      if (n.k == Val::Obj)
        for (auto& kv : n.o)
          if (kv.first.find('\0') != std::string::npos) nul_key = true;
    });
    if (fref::filter_zone(f) || ref::has_duplicate_keys(v) || nul_key) filter = nullptr;  // C11 zones
    else expect = fref::project(expect, &f);
  }
  std::string input = std::string(msgpack ? "msgpack " + cs::hex_bytes(bytes, 300) : "json " + cs::quote_bytes(bytes, 600)) + " filter " + (filter ? filter : "(none)");
  auto run = [&](const Plan& p, uint64_t* fallible, uint64_t* refused_out) {
    lib::Ledger ledger;
    apply_plan(ledger, p);
    {
      JsonDocument doc(&ledger);
      ledger.plan_none();
      doc["old"][2] = "previous content";
      uint64_t before = ledger.fallible_calls;
      uint64_t clock = 0;
      ledger.shared_clock = &clock;
      apply_plan(ledger, p);
      DeserializationError err;
      auto nl = DeserializationOption::NestingLimit(50);
      if (filter) {
        JsonVariantConst fv = fdoc.as<JsonVariantConst>();
        err = msgpack ? deserializeMsgPack(doc, bytes.data(), bytes.size(), DeserializationOption::Filter(fv), nl)
                      : deserializeJson(doc, bytes.data(), bytes.size(), DeserializationOption::Filter(fv), nl);
      } else {
        err = msgpack ? deserializeMsgPack(doc, bytes.data(), bytes.size(), nl) : deserializeJson(doc, bytes.data(), bytes.size(), nl);
      }
      (void)before;
      *fallible = clock;
      *refused_out = ledger.refused;
      ledger.plan_none();
      ctx.executions++;
      std::string where = input + " under " + p.name();
      if (err != DeserializationError::Ok && err != DeserializationError::NoMemory) ctx.fail("wrong-code", where + ": returned " + err.c_str());
      if (ledger.refused && !doc.overflowed()) ctx.fail("failure-not-flagged", where + ": an allocation was refused but overflowed() is false (code " + err.c_str() + ")");
      Val got;
      try {
        got = lib::observe(doc.as<JsonVariantConst>());
      } catch (lib::ObserveError& e) {
        ctx.fail("malformed-after-failure", where + ": " + e.what);
      }
      lib::Inspector::Report rep = lib::Inspector::inspect(doc, true, false, false);
      if (!rep.error.empty()) ctx.fail("malformed-after-failure", where + ": " + rep.error);
      if (err == DeserializationError::Ok) {
        std::string why;
        if (!ref::same(expect, got, num_loose, &why)) ctx.fail("nomemory-swallowed", where + ": returned Ok but the document is incomplete: " + why);
      }
      if (err == DeserializationError::NoMemory && !ledger.refused) ctx.fail("spurious-nomemory", where + ": NoMemory although no allocation was refused");
      doc.clear();
      if (ledger.live_blocks() != 0) ctx.fail("leak-after-clear", where + ": " + std::to_string(ledger.live_blocks()) + " blocks live after clear()");
      if (doc.overflowed()) ctx.fail("overflowed-after-clear", where);
      DeserializationError e2 = deserializeJson(doc, "{\"k\":[1,\"two\",{\"3\":null}],\"big\":123456789012345}");
      std::string t;
      serializeJson(doc, t);
      if (e2 != DeserializationError::Ok || t != "{\"k\":[1,\"two\",{\"3\":null}],\"big\":123456789012345}") ctx.fail("not-usable-after-clear", where + ": " + t);
    }
    if (ledger.live_blocks() != 0 || !ledger.error.empty()) ctx.fail("leak-after-destruction", input + ": " + ledger.error);
  };
  ctx.current_rendering = input;
  uint64_t n = 0, refused = 0;
  run(Plan{0, 0, {}}, &n, &refused);
  if (n == 0) {
    ctx.trivial++;
    return;
  }
  bool truncated = false;
  std::vector<Plan> plans = make_plans(s, n, &truncated);
  bool any = false;
  for (auto& p : plans) {
    uint64_t f2 = 0, r2 = 0;
    ctx.current_rendering = input + "\nplan " + p.name() + " (N=" + std::to_string(n) + ")";
    run(p, &f2, &r2);
    if (r2) {
      any = true;
      ctx.nontrivial(cs::hash_str(bytes, cs::hash_u64(p.k * 4 + (uint64_t)p.mode)) + (p.mode == 3 ? cs::hash_u64(std::hash<std::vector<bool>>()(p.set)) : 0));
    }
  }
  ctx.label("deserialization-scenario");
  ctx.label("fault-runs", plans.size());
  if (truncated) ctx.label("enumeration-sampled(N>64)");
  if (!any) ctx.trivial++;
}

static void run_case(cs::Src& s, cs::Ctx& ctx) {
  ctx.evaluations++;
  if (s.chance(1, 3)) deser_scenario(s, ctx);
  else history_scenario(s, ctx);
}

static void witness(const std::string& name, cs::Ctx& ctx) { ctx.fail("witness", "unknown witness " + name); }

static cs::PropDef PROP = {"C05", run_case, nullptr, witness};
CS_MAIN(PROP)
