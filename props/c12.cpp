// C12 — numbers survive text: exact integers, bounded error, never a wrong magnitude.
#include <ArduinoJson.h>

#include <cfloat>

#include "../engine/runner.hpp"
#include "../gen/json_text.hpp"
#include "../gen/values.hpp"
#include "../lib/observe.hpp"
#include "../ref/json_ref.hpp"
#include "known.hpp"

using namespace ArduinoJson;
using ref::Val;

// ---------------------------------------------------------------- parsing
// result of parsing `lit` either inside a document ("[lit]") or through as<T>() on a string
struct Parsed {
  bool is_int = false;
  Val ival;
  double d = 0;
};

static Parsed parse_in_document(cs::Ctx& ctx, const std::string& lit) {
  JsonDocument doc;
  std::string text = "[" + lit + "]";
  DeserializationError err = deserializeJson(doc, text);
  ctx.executions++;
  if (err != DeserializationError::Ok) ctx.fail("rejected-literal", "deserializeJson rejected " + cs::quote_bytes(text) + ": " + err.c_str());
  JsonVariantConst v = doc[0];
  Parsed p;
  if (!v.is<double>()) ctx.fail("not-a-number", "literal " + lit + " did not produce a number");
  if (v.is<int64_t>()) {
    p.is_int = true;
    p.ival = Val::sint(v.as<int64_t>());
  } else if (v.is<uint64_t>()) {
    p.is_int = true;
    p.ival = Val::uint(v.as<uint64_t>());
  }
  p.d = v.as<double>();
  return p;
}

static void judge_float(cs::Ctx& ctx, const std::string& lit, const numref::Literal& L, double got, const char* via) {
  long double v = numref::literal_ld(lit);
  long double av = fabsl(v);
  auto fail = [&](const char* what) {
    char b[200];
    snprintf(b, sizeof b, " got %.17g, reference %.21Lg", got, v);
    ctx.fail(what, std::string(via) + ": literal " + cs::quote_bytes(lit, 120) + b);
  };
  if (std::isnan(got)) fail("nan-result");
  bool zero_mantissa = numref::mantissa_is_zero(L);
  if (zero_mantissa) {
    if (got != 0) fail("zero-literal-nonzero");
    return;
  }
  if (got != 0 && (got < 0) != L.neg) fail("wrong-sign");
#if ARDUINOJSON_USE_DOUBLE
  long double rel = numref::significant_digits(L) > 7 ? 1e-13L : 1e-6L;
  const long double HI = 1e300L, LO = 1e-300L, TINY = 5e-324L;
  const long MAGHI = 302, MAGLO = -302;
#else
  // JsonFloat = float (row num01): the property's window and accuracy are stated for doubles; what
  // remains decidable is the float analogue: +-inf / +-0 beyond [1e-37, 1e38], never a NaN nor a
  // finite value of the wrong magnitude; inside the window the float path is observed to be good to
  // about 1e-6 (".99999999" reads as 0.99999899), so 1e-5 is demanded
  long double rel = 1e-5L;
  const long double HI = 1e38L, LO = 1e-37L, TINY = 1.5e-45L;
  const long MAGHI = 39, MAGLO = -46;
#endif
  // strtold itself overflows/underflows only beyond 1e+-4900; decide magnitude class on the text
  long mag = 0;
  numref::decimal_magnitude(L, mag);
  if (mag > MAGHI) {  // certainly above the window
    if (std::isinf(got)) return;
    if (mag < 4000 && fabsl(v - got) <= rel * av) return;
    fail("wrong-magnitude-large");
  }
  if (mag < MAGLO) {
    if (got == 0) return;
    if (mag > -4000 && fabsl(v - got) <= rel * av + TINY) return;
    fail("wrong-magnitude-small");
  }
  if (av > HI) {
    if (std::isinf(got) || fabsl(v - got) <= rel * av) return;
    fail("wrong-magnitude-large");
  }
  if (av < LO) {
    if (got == 0 || fabsl(v - got) <= rel * av + TINY) return;
    fail("wrong-magnitude-small");
  }
  if (!std::isfinite(got)) fail("infinite-in-range");
  if (fabsl(v - got) > rel * av) fail(rel < 1e-7L ? "imprecise-13" : "imprecise-6");
}

static void check_literal(cs::Ctx& ctx, const std::string& lit) {
  numref::Literal L;
  if (!numref::parse_strict_lenient(lit, L)) ctx.fail("harness", "generator produced a non-literal " + lit);
  Val exact;
  bool int_class = numref::integer_class(L);
  bool in_range = int_class && numref::exact_integer(L, exact);
  // ---- inside a document (<= 63 characters)
  if (lit.size() <= 63) {
    Parsed p = parse_in_document(ctx, lit);
    if (in_range) {
      if (!p.is_int || p.ival.neg != exact.neg || p.ival.mag != exact.mag)
        ctx.fail("integer-not-exact", "document: integer literal " + lit + " gave " + (p.is_int ? ref::render(p.ival) : "a float " + std::to_string(p.d)));
    } else {
      if (p.is_int) ctx.fail("float-literal-as-integer", "document: literal " + lit + " is not an in-range integer literal but was stored as integer " + ref::render(p.ival));
      judge_float(ctx, lit, L, p.d, "document");
    }
  }
  if (lit.size() > 63 && lit.size() < 90) {
    // longer tokens are outside the documented limit: the outcome is not judged, but the call must be safe
    JsonDocument doc;
    std::string text = "[" + lit + "]";
    deserializeJson(doc, text.data(), text.size());
    ctx.executions++;
  }
  // ---- through as<T>() on a string (any length), linked and copied storage
  for (int linked = 0; linked < 2; linked++) {
    // a copied string is limited by the configured string length (capacity limit, C19); a linked one is not
    if (!linked && lit.size() > (size_t)ArduinoJson::detail::StringNode::maxLength) continue;
    JsonDocument doc;
    if (linked) doc.set(lit.c_str());
    else doc.set(lit);
    ctx.executions++;
    JsonVariantConst v = doc.as<JsonVariantConst>();
    if (in_range) {
      if (exact.fits_i64() && v.as<int64_t>() != exact.as_i64())
        ctx.fail("string-integer-not-exact", "as<int64_t>() on string " + cs::quote_bytes(lit, 120) + " gave " + std::to_string(v.as<int64_t>()));
      if (exact.fits_u64() && v.as<uint64_t>() != exact.mag)
        ctx.fail("string-integer-not-exact", "as<uint64_t>() on string " + cs::quote_bytes(lit, 120) + " gave " + std::to_string(v.as<uint64_t>()));
      long double want = exact.as_ld();
      double got = v.as<double>();
      if (fabsl(want - got) > 1e-13L * fabsl(want)) ctx.fail("string-integer-as-double", "as<double>() on string " + lit);
    } else {
      judge_float(ctx, lit, L, v.as<double>(), linked ? "as<double>() on linked string" : "as<double>() on copied string");
    }
  }
}

// ---------------------------------------------------------------- printing
static bool rfc_number(const std::string& t) {
  size_t i = 0, n = t.size();
  if (i < n && t[i] == '-') i++;
  if (i >= n) return false;
  if (t[i] == '0') i++;
  else if (t[i] >= '1' && t[i] <= '9') {
    while (i < n && numref::is_digit(t[i])) i++;
  } else return false;
  if (i < n && t[i] == '.') {
    i++;
    if (i >= n || !numref::is_digit(t[i])) return false;
    while (i < n && numref::is_digit(t[i])) i++;
  }
  if (i < n && (t[i] == 'e' || t[i] == 'E')) {
    i++;
    if (i < n && (t[i] == '+' || t[i] == '-')) i++;
    if (i >= n || !numref::is_digit(t[i])) return false;
    while (i < n && numref::is_digit(t[i])) i++;
  }
  return i == n;
}

template <typename T>
static void check_print(cs::Ctx& ctx, JsonDocument& doc, T x, long double bound_rel, const char* what) {
  doc.set(x);
  char buf[64];
  size_t n = serializeJson(doc, buf, sizeof buf);
  ctx.executions++;
  std::string lit(buf, n);
  auto fail = [&](const char* kind) {
    char b[160];
    snprintf(b, sizeof b, "%s %.17g (bits given as %s) printed as ", what, (double)x, sizeof(T) == 4 ? "float" : "double");
    ctx.fail(kind, std::string(b) + cs::quote_bytes(lit));
  };
  if (!std::isfinite((double)x)) {
    if (lit != "null") fail("nonfinite-not-null");
    return;
  }
  if (!rfc_number(lit)) fail("not-rfc8259-number");
  long double v = strtold(lit.c_str(), nullptr);
  long double ax = fabsl((long double)x);
  if (ax != 0 && (ax < 1e-300L || ax > 1e300L)) return;  // outside C12's window
  long double tol = bound_rel * fmaxl(1.0L, ax);
  if (fabsl(v - (long double)x) > tol) fail("print-error-too-large");
  if (x != 0 && v != 0 && (v < 0) != (x < 0)) fail("print-wrong-sign");
}

static void check_print_float(cs::Ctx& ctx, JsonDocument& doc, float x) { check_print<float>(ctx, doc, x, 1e-6L, "float"); }
static void check_print_double(cs::Ctx& ctx, JsonDocument& doc, double x) {
  if (known::double_is_float_representable(ctx, x)) {
    // KF: stored as float => judged by the float bound only
    ctx.known("double_is_float_representable");
    check_print<double>(ctx, doc, x, 1e-6L, "double(float-representable)");
    return;
  }
  check_print<double>(ctx, doc, x, 1e-9L, "double");
}

static void check_print_int(cs::Ctx& ctx, JsonDocument& doc, const Val& v) {
  if (v.neg) doc.set(v.as_i64());
  else doc.set(v.mag);
  std::string out;
  serializeJson(doc, out);
  ctx.executions++;
  std::string want = (v.neg ? "-" : "") + std::to_string((unsigned long long)v.mag);
  if (out != want) ctx.fail("integer-print", "integer " + want + " printed as " + cs::quote_bytes(out));
}

// ---------------------------------------------------------------- generators
static std::string digits(cs::Src& s, size_t n) {
  std::string d;
  for (size_t i = 0; i < n; i++) d += (char)('0' + s.below(10));
  return d;
}

static std::string gen_int_literal(cs::Src& s) {
  std::string lit;
  static const unsigned w[] = {6, 2, 2};
  switch (s.pick(w)) {
    case 0: {  // boundary +- offset
      static const char* B[] = {"128", "256", "32768", "65536", "2147483648", "4294967296", "9007199254740992",
                                "9223372036854775808", "18446744073709551616", "10", "100", "1000000000",
                                "10000000000000000000", "1000000000000000000", "100000000000000000000", "0"};
      const char* b = B[s.below(sizeof B / sizeof B[0])];
      __int128 v = 0;
      for (const char* p = b; *p; p++) v = v * 10 + (*p - '0');
      v += s.irange(-40, 40);
      if (v < 0) v = -v;
      std::string t;
      if (v == 0) t = "0";
      while (v) {
        t.insert(t.begin(), (char)('0' + (int)(v % 10)));
        v /= 10;
      }
      lit = t;
      break;
    }
    case 1: lit = digits(s, 1 + (size_t)s.below(25)); break;
    default: {
      Val i = gen::gen_int(s);
      lit = std::to_string((unsigned long long)i.mag);
    }
  }
  // strip, then add generated leading zeros
  size_t z = 0;
  while (z + 1 < lit.size() && lit[z] == '0') z++;
  lit = lit.substr(z);
  if (s.chance(1, 3)) lit = std::string((size_t)s.below(31), '0') + lit;
  if (s.coin()) lit = "-" + lit;
  return lit;
}

// decimal literal, 1..maxdigits digits, value decade swept over [1e-330,1e330]
static std::string gen_decimal_literal(cs::Src& s, size_t maxdigits, size_t force_nd = 0) {
  static const unsigned wd[] = {5, 4, 3, 3, 2, 1};
  size_t nd;
  if (force_nd) {
    nd = force_nd;
    maxdigits = force_nd;
  } else
  switch (s.pick(wd)) {
    case 0: nd = 1 + (size_t)s.below(4); break;
    case 1: nd = 6 + (size_t)s.below(4); break;
    case 2: nd = 15 + (size_t)s.below(6); break;
    case 3: nd = 1 + (size_t)s.below(40); break;
    case 4: nd = 1 + (size_t)s.below(maxdigits < 400 ? maxdigits : 400); break;
    default: nd = 1 + (size_t)s.below(maxdigits);
  }
  if (nd > maxdigits) nd = maxdigits;
  std::string m;
  static const unsigned wm[] = {6, 2, 1, 1};
  switch (s.pick(wm)) {
    case 0: m = digits(s, nd); break;
    case 1: m = "1" + std::string(nd - 1, '0'); break;               // power of ten
    case 2: m = std::string(nd, '9'); break;                         // carries
    default: m = digits(s, nd / 2 + 1) + std::string(nd - nd / 2 - 1 > 0 ? nd - nd / 2 - 1 : 0, '0');
  }
  if (m.size() > nd) m.resize(nd);
  size_t dp = (size_t)s.below(m.size() + 1);
  std::string ip = m.substr(0, dp), fp = m.substr(dp);
  std::string lit = s.chance(1, 3) ? "-" : (s.chance(1, 12) ? "+" : "");
  bool lead_zero_ok = s.chance(1, 6);
  if (!lead_zero_ok) {
    size_t z = 0;
    while (z + 1 < ip.size() && ip[z] == '0') z++;
    ip = ip.substr(z);
  }
  if (ip.empty() && (fp.empty() || s.coin())) ip = "0";
  lit += ip;
  if (!fp.empty() || s.chance(1, 10)) lit += "." + fp;
  // current decimal magnitude of the mantissa
  long mag;
  {
    numref::Literal L;
    std::string probe = lit;
    if (!numref::parse_strict_lenient(probe, L)) return "1.5";
    if (!numref::decimal_magnitude(L, mag)) mag = 0;
  }
  bool need_exp = !(lit.find('.') != std::string::npos) || s.chance(2, 3);
  if (need_exp) {
    static const unsigned we[] = {5, 3, 3, 2, 1};
    long target;
    switch (s.pick(we)) {
      case 0: target = s.irange(-15, 15); break;
      case 1: target = s.irange(-50, 50); break;      // float/double path edge (1e+-38)
      case 2: target = s.irange(-310, 310); break;    // full double range incl. edges
      case 3: target = (s.coin() ? 1 : -1) * s.irange(290, 335); break;  // the 1e+-300 window edges
      default: target = s.irange(-5000, 5000);
    }
    long e = target - mag;
    lit += s.coin() ? "e" : "E";
    if (e < 0) lit += "-";
    else if (s.coin()) lit += "+";
    if (s.chance(1, 10)) lit += std::string(1 + (size_t)s.below(3), '0');
    lit += std::to_string(e < 0 ? -e : e);
  }
  return lit;
}

static void run_case(cs::Src& s, cs::Ctx& ctx) {
  ctx.evaluations++;
  static const unsigned w[] = {4, 6, 3, 3, 2};
  static const unsigned w_lit[] = {4, 6, 0, 0, 0};
  JsonDocument doc;
  switch (ctx.param_u("only_literals", 0) ? s.pick(w_lit) : s.pick(w)) {
    case 0: {
      std::string lit = gen_int_literal(s);
      ctx.current_rendering = "integer literal: " + lit;
      check_literal(ctx, lit);
      ctx.label("int-literal");
      ctx.nontrivial_str("i" + lit);
      if (ctx.want_sample()) ctx.sample("literal " + lit);
      break;
    }
    case 1: {
      bool longlit = s.chance(1, 5);
      size_t force_nd = 0;
      if (s.chance(1, 2500)) {  // digit counts around the 15/16-bit counter widths ("any length" on a string)
        static const unsigned wn[] = {3, 3, 2};
        switch (s.pick(wn)) {
          case 0: force_nd = 32755 + (size_t)s.below(30); break;
          case 1: force_nd = 65525 + (size_t)s.below(30); break;
          default: force_nd = 3000 + (size_t)s.below(70000);
        }
        ctx.label("decimal-literal-of-tens-of-thousands-of-digits");
      }
      std::string lit = gen_decimal_literal(s, longlit ? 3000 : 40, force_nd);
      ctx.current_rendering = "decimal literal: " + (lit.size() > 4000 ? lit.substr(0, 200) + "...(" + std::to_string(lit.size()) + " characters)..." + lit.substr(lit.size() - 40) : lit);
      check_literal(ctx, lit);
      ctx.label(lit.size() <= 63 ? "decimal-literal<=63" : "decimal-literal>63(string only)");
      numref::Literal L;
      numref::parse_strict_lenient(lit, L);
      int feats = (L.has_frac ? 1 : 0) + (L.has_exp ? 1 : 0) + (numref::significant_digits(L) > 15 ? 1 : 0) +
                  ((L.int_digits.size() > 1 && L.int_digits[0] == '0') ? 1 : 0);
      if (feats >= 2) ctx.nontrivial_str("d" + lit);
      else ctx.trivial++;
      if (ctx.want_sample() && lit.size() < 80) ctx.sample("literal " + lit);
      break;
    }
    case 2: {
      float f = gen::bits_to_float((uint32_t)s.below(1ull << 32));
      if (s.chance(1, 4)) f = (float)gen::gen_double(s, true);
      char b[64];
      snprintf(b, sizeof b, "print float %.9g", (double)f);
      ctx.current_rendering = b;
      check_print_float(ctx, doc, f);
      ctx.label("print-float");
      if (std::isfinite(f) && f != 0) ctx.nontrivial(cs::hash_u64((uint64_t)*(uint32_t*)&f, 0xF));
      else ctx.trivial++;
      break;
    }
    case 3: {
      double d = gen::gen_double(s, true);
      if (s.chance(1, 3)) {
        // thresholds of the notation switch and float-representable doubles above 2^24
        static const double T[] = {1e7, 9999999.999, 1e-5, 0.0000099999, 16777218.0, 193.65205383300781, 0.1 + 0.2,
                                   1.00000011920928955, 123456.7890123, 4294967295.5, 1e21, 1.5e-7};
        d = T[s.below(sizeof T / sizeof T[0])] * (s.coin() ? 1 : -1);
        if (s.coin()) d = std::nextafter(d, s.coin() ? 0.0 : INFINITY);
      }
      char b[64];
      snprintf(b, sizeof b, "print double %.17g", d);
      ctx.current_rendering = b;
      check_print_double(ctx, doc, d);
      ctx.label("print-double");
      uint64_t bits;
      memcpy(&bits, &d, 8);
      if (std::isfinite(d) && d != 0) ctx.nontrivial(cs::hash_u64(bits, 0xD));
      else ctx.trivial++;
      break;
    }
    default: {
      Val i = gen::gen_int(s);
      ctx.current_rendering = "print integer " + ref::render(i);
      check_print_int(ctx, doc, i);
      ctx.label("print-int");
      ctx.nontrivial_str("p" + ref::render(i));
    }
  }
}

// ---------------------------------------------------------------- sweeps
static void sweep(cs::Ctx& ctx, uint64_t shard, uint64_t nshards) {
  JsonDocument doc;
  bool full = ctx.param_u("all_floats", 0) != 0;
  uint64_t stride = full ? 1 : ctx.param_u("float_stride", 1024);
  uint64_t offset = full ? 0 : (cs::mix(ctx.param_u("seed", 1), 99) % stride);
  // floats: every stride-th bit pattern (all of them in the thorough tier)
  uint64_t total = (1ull << 32) / stride;
  for (uint64_t k = shard; k < total; k += nshards) {
    uint32_t bits = (uint32_t)(k * stride + offset);
    float f = gen::bits_to_float(bits);
    char b[32];
    snprintf(b, sizeof b, "f32:0x%08x", bits);
    cs::failing_input() = b;
    ctx.current_rendering = b;
    ctx.evaluations++;
    check_print_float(ctx, doc, f);
    if (std::isfinite(f) && f != 0) ctx.counted_nontrivial++;
    else ctx.trivial++;
  }
  // every (sign, exponent) with boundary mantissas
  if (shard == 0) {
    static const uint32_t M[] = {0, 1, 2, 0x7FFFFF, 0x7FFFFE, 0x400000, 0x3FFFFF, 0x0CCCCD, 0x199999};
    for (uint32_t se = 0; se < 512; se++)
      for (uint32_t m : M) {
        uint32_t bits = (se << 23) | m;
        char b[32];
        snprintf(b, sizeof b, "f32:0x%08x", bits);
        cs::failing_input() = b;
        ctx.current_rendering = b;
        ctx.evaluations++;
        check_print_float(ctx, doc, gen::bits_to_float(bits));
        ctx.label("float-boundary-mantissa");
      }
    // doubles: every exponent x boundary mantissas
    static const uint64_t MD[] = {0, 1, 0xFFFFFFFFFFFFFull, 0x8000000000000ull, 0x7FFFFFFFFFFFFull, 0x999999999999Aull,
                                  0x0000000020000000ull, 0xFFFFFFFE0000000ull};
    for (uint64_t se = 0; se < 4096; se++)
      for (uint64_t m : MD) {
        uint64_t bits = (se << 52) | m;
        char b[40];
        snprintf(b, sizeof b, "f64:0x%016llx", (unsigned long long)bits);
        cs::failing_input() = b;
        ctx.current_rendering = b;
        ctx.evaluations++;
        check_print_double(ctx, doc, gen::bits_to_double(bits));
        ctx.label("double-boundary-mantissa");
        ctx.counted_nontrivial++;
      }
    // integer literals: every boundary +-40, both signs, 0..30 leading zeros (sampled zeros)
    static const char* B[] = {"128", "256", "32768", "65536", "2147483648", "4294967296", "9007199254740992",
                              "9223372036854775808", "18446744073709551616"};
    for (const char* bs : B)
      for (int off = -40; off <= 40; off++)
        for (int neg = 0; neg < 2; neg++)
          for (int zeros : {0, 1, 7, 30}) {
            __int128 v = 0;
            for (const char* p = bs; *p; p++) v = v * 10 + (*p - '0');
            v += off;
            std::string t;
            while (v) {
              t.insert(t.begin(), (char)('0' + (int)(v % 10)));
              v /= 10;
            }
            std::string lit = std::string(neg ? "-" : "") + std::string((size_t)zeros, '0') + t;
            cs::failing_input() = "lit:" + lit;
            ctx.current_rendering = "lit:" + lit;
            ctx.evaluations++;
            check_literal(ctx, lit);
            ctx.counted_nontrivial++;
            ctx.label("int-boundary-literal");
          }
  }
  cs::failing_input().clear();
  ctx.current_rendering.clear();
  ctx.exhaustive_done = full;
}

static void replay_input(const std::string& in, cs::Ctx& ctx) {
  JsonDocument doc;
  ctx.current_rendering = in;
  if (in.rfind("f32:", 0) == 0) check_print_float(ctx, doc, gen::bits_to_float((uint32_t)strtoul(in.c_str() + 4, nullptr, 0)));
  else if (in.rfind("f64:", 0) == 0) check_print_double(ctx, doc, gen::bits_to_double(strtoull(in.c_str() + 4, nullptr, 0)));
  else if (in.rfind("lit:", 0) == 0) check_literal(ctx, in.substr(4));
}

static void witness(const std::string& name, cs::Ctx& ctx) {
  JsonDocument doc;
  if (name == "double_float_representable_print") {
    // KF-1: a double that a float represents exactly is printed with the float's 6 decimals
    check_print<double>(ctx, doc, 1.00000011920928955, 1e-9L, "double");
    return;
  }
  if (name == "int_2p64") return check_literal(ctx, "18446744073709551616");
  if (name == "float_path_overflow") {
    check_literal(ctx, "4e38");
    check_literal(ctx, "960.E38");
    check_literal(ctx, "1732e36");
    return;
  }
  if (name == "exponent_early_exit") {
    check_literal(ctx, "100000000000000000000000000000e-300");
    check_literal(ctx, "0.e315");
    check_literal(ctx, "-0.0E+329");
    return;
  }
  if (name == "long_numeric_string") {
    check_literal(ctx, std::string(600, '7'));
    check_literal(ctx, "0." + std::string(600, '0') + "7e600");
    check_literal(ctx, std::string(600, '7') + "e-590");
    return;
  }
  ctx.fail("witness", "unknown witness " + name);
}

static cs::PropDef PROP = {"C12", run_case, sweep, witness, replay_input};
CS_MAIN(PROP)
