// C01 — valid JSON deserializes to exactly the value it denotes.
#include <ArduinoJson.h>

#include "../engine/runner.hpp"
#include "../gen/json_text.hpp"
#include "../gen/values.hpp"
#include "../lib/build.hpp"
#include "../lib/ledger.hpp"
#include "../lib/observe.hpp"
#include "../lib/sources.hpp"
#include "../ref/json_ref.hpp"
#include "known.hpp"

using namespace ArduinoJson;
using ref::Val;

// expected Flt nodes carry their literal in .s; tolerance per C12
static bool num_c01(const Val& w, const Val& g) {
  if (w.k == Val::Int) return g.k == Val::Int && w.neg == g.neg && w.mag == g.mag;
  if (g.k != Val::Flt) return false;
  long double x = w.s.empty() ? (long double)w.d : numref::literal_ld(w.s);
  long double y = g.d;
  long double ax = fabsl(x);
  if (ax == 0) return y == 0;
  if (ax < 1e-300L || ax > 1e300L) return true;  // outside C12's window: not judged here
  long double rel = 1e-6L;
  numref::Literal L;
  if (!w.s.empty() && numref::parse_strict_lenient(w.s, L) && numref::significant_digits(L) > 7) rel = 1e-13L;
  if (!std::isfinite((double)y)) return false;
  if ((y < 0) != (x < 0)) return false;
  return fabsl(x - y) <= rel * ax + 1e-320L;
}

static Val merge_last_pos(const Val& v) {
  Val r = v;
  if (v.k == Val::Arr)
    for (auto& e : r.a) e = merge_last_pos(e);
  else if (v.k == Val::Obj) {
    r.o.clear();
    for (size_t i = 0; i < v.o.size(); i++) {
      bool later = false;
      for (size_t j = i + 1; j < v.o.size(); j++)
        if (v.o[j].first == v.o[i].first) later = true;
      if (!later) r.o.push_back({v.o[i].first, merge_last_pos(v.o[i].second)});
    }
  }
  return r;
}

static void check_text(cs::Ctx& ctx, cs::Src* s, const Val& v, const std::string& text, int dest_kind, int input_kind,
                       int nesting_limit) {
  lib::Ledger ledger;
  lib::Arena arena;
  JsonDocument doc(&ledger);
  Val before;  // what the document holds outside the destination
  // ---- destination state
  //  0 fresh document, 1 document holding a previous value, 2 document that overflowed before,
  //  3 member of an object, 4 element of an array, 5 JsonVariant handle inside the document
  if (dest_kind == 1 || dest_kind >= 3) {
    gen::Opts o;
    o.node_budget = 12;
    o.top_container = true;
    Val prev = s ? gen::gen_value(*s, o) : Val::arr();
    if (s) lib::build(doc.to<JsonVariant>(), prev, *s, arena);
  } else if (dest_kind == 2) {
    ledger.plan_from(2);
    doc["x"]["y"][3] = std::string(40, 'q');
    doc["z"] = 1.5;
    ledger.plan_none();
  }
  DeserializationError err = DeserializationError::Ok;
  Val got;
  auto limit = DeserializationOption::NestingLimit((uint8_t)nesting_limit);
  if (dest_kind <= 2) {
    err = lib::feed(input_kind, text, [&](auto&&... in) { return deserializeJson(doc, in..., limit); });
    got = lib::observe(doc.as<JsonVariantConst>());
  } else {
    // nested destination: make the root an object/array holding a slot, remember the rest
    JsonDocument tmp(&ledger);
    tmp.set(doc.as<JsonVariantConst>());
    doc.clear();
    if (dest_kind == 3) {
      doc["keep"].set(tmp.as<JsonVariantConst>());
      doc["dst"] = "old";
      doc["tail"] = 7;
      before = lib::observe(doc.as<JsonVariantConst>());
      err = lib::feed(input_kind, text, [&](auto&&... in) { return deserializeJson(doc["dst"], in..., limit); });
      Val all = lib::observe(doc.as<JsonVariantConst>());
      CHECK(ctx, all.k == Val::Obj && all.o.size() == 3 && all.o[1].first == "dst", "nested-destination",
            "document shape changed around the destination: " + ref::render(all, 300));
      got = all.o[1].second;
      all.o[1].second = before.o[1].second;
      std::string why;
      CHECK(ctx, ref::same(before, all, ref::num_exact, &why), "nested-destination", "values outside the destination changed: " + why);
    } else if (dest_kind == 4) {
      doc.add(tmp.as<JsonVariantConst>());
      doc.add("old");
      doc.add(7);
      before = lib::observe(doc.as<JsonVariantConst>());
      err = lib::feed(input_kind, text, [&](auto&&... in) { return deserializeJson(doc[1], in..., limit); });
      Val all = lib::observe(doc.as<JsonVariantConst>());
      CHECK(ctx, all.k == Val::Arr && all.a.size() == 3, "nested-destination",
            "document shape changed around the destination: " + ref::render(all, 300));
      got = all.a[1];
      all.a[1] = before.a[1];
      std::string why;
      CHECK(ctx, ref::same(before, all, ref::num_exact, &why), "nested-destination", "values outside the destination changed: " + why);
    } else {
      doc["keep"].set(tmp.as<JsonVariantConst>());
      JsonVariant h = doc["h"]["v"].to<JsonVariant>();
      h.set(42);
      before = lib::observe(doc.as<JsonVariantConst>());
      err = lib::feed(input_kind, text, [&](auto&&... in) { return deserializeJson(h, in..., limit); });
      Val all = lib::observe(doc.as<JsonVariantConst>());
      CHECK(ctx, all.k == Val::Obj && all.o.size() == 2 && all.o[1].second.k == Val::Obj && all.o[1].second.o.size() == 1,
            "nested-destination", "document shape changed around the destination: " + ref::render(all, 300));
      got = all.o[1].second.o[0].second;
      Val hv = lib::observe(h);
      std::string why;
      CHECK(ctx, ref::same(got, hv, ref::num_exact, &why), "nested-destination", "handle and path observe different values: " + why);
      all.o[1].second.o[0].second = before.o[1].second.o[0].second;
      CHECK(ctx, ref::same(before, all, ref::num_exact, &why), "nested-destination", "values outside the destination changed: " + why);
    }
  }
  ctx.executions++;
  CHECK(ctx, ledger.error.empty(), "allocator-discipline", ledger.error);
  CHECK(ctx, err == DeserializationError::Ok, "rejected-valid-json",
        std::string("deserializeJson returned ") + err.c_str() + " for a valid RFC 8259 text (input kind " +
            lib::kind_name(input_kind) + ", destination " + std::to_string(dest_kind) + ")");
  CHECK(ctx, !doc.overflowed(), "overflowed", "overflowed() is set after a successful deserialization");
  std::string why1, why2;
  Val e1 = ref::merge_duplicates_first_pos(v), e2 = merge_last_pos(v);
  bool ok = ref::same(e1, got, num_c01, &why1) || ref::same(e2, got, num_c01, &why2);
  CHECK(ctx, ok, "wrong-value", "document does not denote the value of the text: " + why1);
  if (dest_kind <= 2) CHECK(ctx, doc.nesting() == e1.nesting(), "nesting", "nesting() disagrees with the value");
}

static void run_case(cs::Src& s, cs::Ctx& ctx) {
  ctx.evaluations++;
  gen::Opts o;
  o.utf8_only = true;
  o.nul = true;
  o.dup_keys = true;
  o.long_strings = true;
  o.top_container = s.chance(3, 4);
  int limit = 10;
  if (s.chance(1, 8)) {
    o.max_depth = (size_t)s.range(1, 40);
    o.max_children = 2;
    o.node_budget = 80;
    limit = (int)o.max_depth + (int)s.below(3);
  } else {
    o.max_depth = (size_t)s.range(1, 6);
  }
  Val v = gen::gen_value(s, o);
  if ((int)v.nesting() > limit) limit = (int)v.nesting();
  if (limit > 255) limit = 255;
  gen::attach_float_literals(s, v, 63);  // the documented limit for a literal inside a document
  // exclusions by construction: open known findings about number literals
  bool excluded = false;
  v.walk([&](const Val& n) {
    if (n.k == Val::Flt && !n.s.empty() && known::float_literal_excluded(ctx, n.s)) excluded = true;
    if (n.k == Val::Int && known::int_literal_excluded(ctx, n)) excluded = true;
  });
  gen::Spell sp;
  sp.strict = true;
  std::string text = gen::spell_document(s, sp, v);
  ctx.current_rendering = "text: " + cs::quote_bytes(text, 3000) + "\nvalue: " + ref::render(v);
  if (excluded) return;
  if (sp.ws_runs && v.k != Val::Arr && v.k != Val::Obj && v.k != Val::Str && known::top_number_blank_excluded(ctx, v, text)) return;
  int dest = (int)s.below(6);
  int kind = (int)s.below(lib::K_COUNT);
  ctx.current_rendering += "\ndestination=" + std::to_string(dest) + " input=" + lib::kind_name(kind) + " limit=" + std::to_string(limit);
  check_text(ctx, &s, v, text, dest, kind, limit);

  bool dup = ref::has_duplicate_keys(v);
  bool frac = false;
  v.walk([&](const Val& n) {
    if (n.k == Val::Flt) frac = true;
  });
  bool nontrivial = sp.escapes || dup || v.nesting() >= 2 || frac || sp.nonascii || sp.ws_runs;
  if (nontrivial) ctx.nontrivial_str(text);
  else ctx.trivial++;
  if (sp.escapes) ctx.label("has-escape");
  if (dup) ctx.label("has-duplicate-key");
  if (frac) ctx.label("has-float-literal");
  if (sp.ws_runs) ctx.label("has-whitespace");
  ctx.label(std::string("dest-") + std::to_string(dest));
  ctx.label(std::string("input-") + lib::kind_name(kind));
  if (ctx.want_sample() && nontrivial && text.size() < 300) ctx.sample(text);
}

static void witness(const std::string& name, cs::Ctx& ctx) {
  auto expect = [&](const std::string& text, const Val& v, int kind = lib::K_PTR_SIZE) {
    check_text(ctx, nullptr, v, text, 0, kind, 10);
  };
  if (name == "nul_key_duplicate") {
    Val v = Val::obj();
    v.o.push_back({"a", Val::uint(1)});
    v.o.push_back({std::string("a\0b", 3), Val::uint(2)});
    expect("{\"a\":1,\"a\\u0000b\":2}", v);
    return;
  }
  if (name == "top_number_then_blank") {
    expect("42\n", Val::uint(42));
    expect(" -7 ", Val::sint(-7));
    expect("1.5\r\n", [] { Val f = Val::flt(1.5); f.s = "1.5"; return f; }());
    return;
  }
  if (name == "int_2p64") {
    Val f = Val::flt(18446744073709551616.0);
    f.s = "18446744073709551616";
    expect("[18446744073709551616]", [&] { Val a = Val::arr(); a.a.push_back(f); return a; }());
    return;
  }
  if (name == "float_path_overflow") {
    Val f = Val::flt(4e38);
    f.s = "4e38";
    Val a = Val::arr();
    a.a.push_back(f);
    expect("[4e38]", a);
    return;
  }
  if (name == "many_digit_mantissa_negative_exponent") {
    Val f = Val::flt(1e-271);
    f.s = "100000000000000000000000000000e-300";
    Val a = Val::arr();
    a.a.push_back(f);
    expect("[100000000000000000000000000000e-300]", a);
    return;
  }
  ctx.fail("witness", "unknown witness " + name);
}

static cs::PropDef PROP = {"C01", run_case, nullptr, witness};
CS_MAIN(PROP)
