// C16 — one call consumes one document from a stream.
#include <ArduinoJson.h>

#include <sstream>

#include "../engine/runner.hpp"
#include "../gen/json_text.hpp"
#include "../gen/values.hpp"
#include "../lib/observe.hpp"
#include "../lib/sources.hpp"
#include "../ref/json_ref.hpp"
#include "../ref/msgpack_ref.hpp"

using namespace ArduinoJson;
using ref::Val;

#if ARDUINOJSON_ENABLE_ARDUINO_STREAM
struct MyStream : Stream {
  const std::string* data;
  size_t pos = 0;
  explicit MyStream(const std::string& d) : data(&d) {}
  int read() override { return pos < data->size() ? (unsigned char)(*data)[pos++] : -1; }
  size_t readBytes(char* buffer, size_t length) override {
    size_t n = 0;
    while (n < length && pos < data->size()) buffer[n++] = (*data)[pos++];
    return n;
  }
};
#endif

struct SrcWidths : mref::Widths {
  cs::Src* s;
  uint64_t choose(uint64_t n) override { return s->below(4) ? 0 : s->below(n); }
};

static bool num_tol(const Val& w, const Val& g) {
  if (w.k == Val::Int) return g.k == Val::Int && w.neg == g.neg && w.mag == g.mag;
  if (g.k != Val::Flt && g.k != Val::Int) return false;
  long double x = w.d, y = g.as_ld();
  if (std::isnan(w.d)) return g.k == Val::Flt && std::isnan(g.d);
  if (fabsl(x) < 1e-300L) return y == 0 || fabsl(x - y) <= 1e-6L * fabsl(x) + 5e-324L;
  if (fabsl(x) > 1e300L) return std::isinf((double)y) || fabsl(x - y) <= 1e-6L * fabsl(x);
  return fabsl(x - y) <= 1e-6L * fabsl(x);
}

struct Doc {
  Val v;
  size_t start, end;  // [start,end) bytes of the value itself (blanks before it not included)
  bool number;
};

// `filter` (may be null): the same stream read with DeserializationOption::Filter; skipped parts must
// be consumed exactly like parsed ones (the documents themselves are C11's business)
template <typename ReaderT, typename PosFn>
static void drive(cs::Ctx& ctx, bool msgpack, const std::string& stream, const std::vector<Doc>& docs, ReaderT& reader, PosFn pos,
                  const char* kind, size_t upto, std::vector<size_t>* consumed_out, const JsonDocument* filter = nullptr) {
  for (size_t i = 0; i < upto; i++) {
    JsonDocument doc;
    DeserializationError err;
    if (filter) {
      JsonVariantConst fv = filter->as<JsonVariantConst>();
      err = msgpack ? deserializeMsgPack(doc, reader, DeserializationOption::Filter(fv), DeserializationOption::NestingLimit(50))
                    : deserializeJson(doc, reader, DeserializationOption::Filter(fv), DeserializationOption::NestingLimit(50));
    } else {
      err = msgpack ? deserializeMsgPack(doc, reader, DeserializationOption::NestingLimit(50))
                    : deserializeJson(doc, reader, DeserializationOption::NestingLimit(50));
    }
    ctx.executions++;
    std::string where = std::string(kind) + " call " + std::to_string(i + 1) + " of " + std::to_string(docs.size());
    if (err != DeserializationError::Ok) ctx.fail("document-not-returned", where + ": returned " + err.c_str());
    lib::ObserveOpts oo;
    oo.cross_checks = false;
    Val got = lib::observe(doc.as<JsonVariantConst>(), oo);
    std::string why;
    if (!filter && !ref::same(docs[i].v, got, msgpack ? ref::num_by_value : num_tol, &why))
      ctx.fail("wrong-document", where + ": " + why);
    size_t p = pos();
    if (p != (size_t)-1) {
      bool ok = msgpack ? p == docs[i].end : (docs[i].number ? (p == docs[i].end || p == docs[i].end + 1) : p == docs[i].end);
      if (i + 1 == docs.size() && docs[i].number && p == stream.size()) ok = true;
      if (!ok)
        ctx.fail("consumed-wrong-amount", where + ": reader is at offset " + std::to_string(p) + ", the value spans [" +
                                              std::to_string(docs[i].start) + "," + std::to_string(docs[i].end) + ")" + (docs[i].number ? " (number)" : ""));
      if (consumed_out) consumed_out->push_back(p);
    }
  }
}

static void run_case(cs::Src& s, cs::Ctx& ctx) {
  ctx.evaluations++;
  bool msgpack = s.chance(1, 3);
  size_t n = 1 + (size_t)s.below(8);
  std::vector<Doc> docs;
  std::string stream;
  gen::Opts o;
  o.utf8_only = true;
  o.nul = !msgpack ? true : true;
  o.max_depth = 3;
  o.node_budget = 10;
  std::string kinds;
  for (size_t i = 0; i < n; i++) {
    Doc d;
    o.top_container = s.coin();
    d.v = gen::gen_value(s, o);
    if (msgpack && s.chance(1, 3)) {  // bin / ext items, also with empty payloads and as top-level objects
      std::string data;
      static const size_t L[] = {0, 0, 1, 2, 4, 5, 16, 40, 300};
      size_t n = L[s.below(9)];
      for (size_t i = 0; i < n; i++) data += (char)s.below(256);
      int width = (int)s.below(3);  // 0 minimal, 1, 2
      if (width == 1 && n > 255) width = 2;
      Val item = s.coin() ? Val::raw(mref::bin_bytes(data, width)) : Val::raw(mref::ext_bytes((int8_t)s.below(256), data, width));
      if (d.v.k == Val::Arr && s.coin()) d.v.a.push_back(item);
      else d.v = item;
    }
    if (s.chance(1, 4)) {  // strings whose spelling ends in escapes (quote look-ahead of parsers and skippers)
      static const char* T[] = {"C:\\", "\\", "a\\\\", "\"", "\\\"", "'", "\\'"};
      Val t = Val::str(T[s.below(7)]);
      if (d.v.k == Val::Arr) d.v.a.push_back(t);
      else if (d.v.k == Val::Obj && !d.v.find("zz")) d.v.o.push_back({"zz", t});
      else if (d.v.k == Val::Str) d.v = t;
    }
    d.number = d.v.k == Val::Int || d.v.k == Val::Flt;
    if (msgpack) {
      SrcWidths w;
      w.s = &s;
      mref::EncStats st;
      d.start = stream.size();
      mref::encode(d.v, stream, w, st);
      d.end = stream.size();
    } else {
      // inter-document blanks: required after a number, generated elsewhere
      bool prev_number = !docs.empty() && docs.back().number;
      static const char* B[] = {"", " ", "\n", "\r\n", "  \n\t", "\n\n"};
      size_t b = (size_t)s.below(6);
      if (prev_number && b == 0) b = 1 + (size_t)s.below(5);
      stream += B[b];
      gen::Spell sp;
      sp.strict = s.coin();  // dialect spellings too: single quotes, unquoted keys
      sp.ws = s.coin();
      sp.comments = ARDUINOJSON_ENABLE_COMMENTS;
#if ARDUINOJSON_ENABLE_COMMENTS
      if (s.chance(1, 4)) stream += s.coin() ? "/* between documents */" : "// between documents\n";  // leading comments belong to the next call
#endif
      std::string t;
      if (d.v.k == Val::Flt) {
        d.v.s = gen::gen_float_literal(s, 30);
        d.v.d = strtod(d.v.s.c_str(), nullptr);
      }
      gen::spell(s, sp, d.v, t);
      d.start = stream.size();
      stream += t;
      d.end = stream.size();
      d.v = ref::merge_duplicates_first_pos(d.v);
    }
    kinds += d.number ? 'n' : d.v.is_container() ? 'c' : d.v.k == Val::Str ? 's' : 'k';
    docs.push_back(d);
  }
  if (!msgpack && s.coin()) stream += s.coin() ? "\n" : "  ";
  ctx.current_rendering = std::string(msgpack ? "msgpack stream: " + cs::hex_bytes(stream, 600) : "json stream: " + cs::quote_bytes(stream, 1200)) +
                          "\ndocuments: " + std::to_string(n) + " kinds " + kinds;
  // ---- custom reader
  std::vector<size_t> consumed;
  {
    lib::CountingReader r(stream);
    drive(ctx, msgpack, stream, docs, r, [&]() { return r.pos; }, "custom reader", n, &consumed);
    JsonDocument doc;
    DeserializationError err = msgpack ? deserializeMsgPack(doc, r) : deserializeJson(doc, r);
    if (err != DeserializationError::EmptyInput) ctx.fail("no-empty-input-at-end", std::string("after the last document: ") + err.c_str());
  }
  // ---- the same stream read through a filter: what is skipped is consumed like what is parsed
  {
    static const char* F[] = {"false", "{\"a\":true}", "[true]", "[{\"zz\":true}]", "{\"*\":{\"a\":true}}", "null"};
    const char* ftext = F[s.below(6)];
    JsonDocument fdoc;
    deserializeJson(fdoc, ftext);
    lib::CountingReader r(stream);
    std::string kind = std::string("custom reader with filter ") + ftext;
    drive(ctx, msgpack, stream, docs, r, [&]() { return r.pos; }, kind.c_str(), n, nullptr, &fdoc);
    ctx.label("filtered-stream");
  }
  // ---- std::istream
  {
    std::istringstream is(stream);
    drive(ctx, msgpack, stream, docs, is, [&]() {
      if (!is.good()) return (size_t)-1;
      return (size_t)is.tellg();
    }, "std::istream", n, nullptr);
  }
  // ---- std::istream whose buffer refills a few bytes at a time
  {
    lib::ChunkedBuf buf(stream, 1 + (size_t)s.below(5));
    std::istream is(&buf);
    drive(ctx, msgpack, stream, docs, is, [&]() { return buf.consumed(); }, "std::istream (chunked streambuf)", n, nullptr);
  }
#if ARDUINOJSON_ENABLE_ARDUINO_STREAM
  {
    MyStream st(stream);
    drive(ctx, msgpack, stream, docs, st, [&]() { return st.pos; }, "Arduino Stream", n, nullptr);
    ctx.label("arduino-stream");
  }
#endif
  // ---- the result never depends on bytes beyond those consumed
  if (!consumed.empty()) {
    size_t i = (size_t)s.below(consumed.size());
    // a number that was ended by the end of the stream has no delimiter yet: appending bytes would
    // extend the token itself
    if (!msgpack && docs[i].number && consumed[i] == docs[i].end) i = i > 0 ? i - 1 : (size_t)-1;
    if (i != (size_t)-1 && !msgpack && docs[i].number && consumed[i] == docs[i].end) i = (size_t)-1;
    if (i != (size_t)-1) {
    std::string altered = stream.substr(0, consumed[i]);
    static const char* G[] = {"\x01\xFF]]}}", "[[[[", "\"unterminated", "\xC1\xC1", "}"};
    altered += G[s.below(5)];
    lib::CountingReader r(altered);
    std::vector<size_t> consumed2;
    drive(ctx, msgpack, altered, docs, r, [&]() { return r.pos; }, "custom reader (tail replaced by garbage)", i + 1, &consumed2);
    for (size_t k = 0; k <= i; k++)
      if (consumed2[k] != consumed[k]) ctx.fail("consumption-depends-on-tail", "consumption changed when the unread tail was replaced");
    }
  }
  bool num_not_last = false;
  for (size_t i = 0; i + 1 < docs.size(); i++)
    if (docs[i].number) num_not_last = true;
  bool kinds_differ = false;
  for (char c : kinds)
    if (c != kinds[0]) kinds_differ = true;
  if (n >= 2 && kinds_differ && num_not_last) ctx.nontrivial_str(stream);
  else ctx.trivial++;
  ctx.label(msgpack ? "msgpack" : "json");
  if (num_not_last) ctx.label("number-followed-by-document");
  if (ctx.want_sample() && !msgpack && stream.size() < 120 && n >= 3) ctx.sample(cs::quote_bytes(stream));
}

static void witness(const std::string& name, cs::Ctx& ctx) {
  if (name == "numbers_on_a_stream") {
    std::string stream = "1 2 [3]\n4.5\n";
    std::vector<Doc> docs;
    Val a = Val::arr();
    a.a.push_back(Val::uint(3));
    Val f = Val::flt(4.5);
    docs.push_back({Val::uint(1), 0, 1, true});
    docs.push_back({Val::uint(2), 2, 3, true});
    docs.push_back({a, 4, 7, false});
    docs.push_back({f, 8, 11, true});
    lib::CountingReader r(stream);
    drive(ctx, false, stream, docs, r, [&]() { return r.pos; }, "custom reader", 4, nullptr);
    return;
  }
  ctx.fail("witness", "unknown witness " + name);
}

static cs::PropDef PROP = {"C16", run_case, nullptr, witness};
CS_MAIN(PROP)
