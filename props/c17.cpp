// C17 — Unicode escapes decode correctly for every code point; escaping is the inverse.
// The whole space is enumerated (exhaustive): 65536 code units x 3 hex cases x 3 contexts,
// 1024x1024 surrogate pairs, lone surrogates (safety), all bytes and byte pairs as content.
#include <ArduinoJson.h>

#include "../engine/runner.hpp"
#include "../gen/values.hpp"
#include "../ref/json_ref.hpp"

using namespace ArduinoJson;

static void own_utf8(std::string& o, uint32_t cp) {
  if (cp < 0x80) {
    o += (char)cp;
  } else if (cp < 0x800) {
    o += (char)(0xC0 | (cp >> 6));
    o += (char)(0x80 | (cp & 0x3F));
  } else if (cp < 0x10000) {
    o += (char)(0xE0 | (cp >> 12));
    o += (char)(0x80 | ((cp >> 6) & 0x3F));
    o += (char)(0x80 | (cp & 0x3F));
  } else {
    o += (char)(0xF0 | (cp >> 18));
    o += (char)(0x80 | ((cp >> 12) & 0x3F));
    o += (char)(0x80 | ((cp >> 6) & 0x3F));
    o += (char)(0x80 | (cp & 0x3F));
  }
}

static void hex4(std::string& o, uint32_t cu, int hexcase) {
  static const char* lo = "0123456789abcdef";
  static const char* up = "0123456789ABCDEF";
  o += "\\u";
  for (int i = 3; i >= 0; i--) {
    unsigned d = (cu >> (4 * i)) & 0xF;
    const char* tab = hexcase == 0 ? lo : hexcase == 1 ? up : ((i & 1) ? lo : up);
    o += tab[d];
  }
}

// context 0: whole string value; 1: key; 2: embedded between raw text
static void check_escape(cs::Ctx& ctx, const std::string& escapes, const std::string& want, int context) {
  std::string text, expect = want;
  if (context == 0) text = "\"" + escapes + "\"";
  else if (context == 1) text = "{\"" + escapes + "\":1}";
  else {
    text = "[\"ab" + escapes + "yz\\n\"]";
    expect = "ab" + want + "yz\n";
  }
  JsonDocument doc;
  DeserializationError err = deserializeJson(doc, text.data(), text.size());
  ctx.executions++;
  if (err != DeserializationError::Ok) {
    cs::failing_input() = text;
    ctx.fail("escape-rejected", "deserializeJson(" + cs::quote_bytes(text) + ") returned " + err.c_str());
  }
  JsonString got;
  if (context == 0) got = doc.as<JsonString>();
  else if (context == 1) {
    JsonObjectConst o = doc.as<JsonObjectConst>();
    for (JsonPairConst p : o) got = p.key();
  } else got = doc[0].as<JsonString>();
  if (got.isNull() || std::string(got.c_str(), got.size()) != expect || got.c_str()[got.size()] != 0) {
    cs::failing_input() = text;
    ctx.fail("escape-decoding", "text " + cs::quote_bytes(text) + " decoded to " +
                                    (got.isNull() ? std::string("null") : cs::quote_bytes(std::string(got.c_str(), got.size()))) +
                                    ", expected " + cs::quote_bytes(expect));
  }
}

static void check_safety(cs::Ctx& ctx, const std::string& text) {
  JsonDocument doc;
  DeserializationError err = deserializeJson(doc, text.data(), text.size());
  ctx.executions++;
  if (err == DeserializationError::Ok) {
    std::string out;
    serializeJson(doc, out);  // must be traversable
  }
}

static void check_roundtrip(cs::Ctx& ctx, const std::string& content, bool as_key) {
  JsonDocument doc;
  if (as_key) doc[JsonString(content.data(), content.size(), JsonString::Copied)] = 1;
  else doc.set(JsonString(content.data(), content.size(), JsonString::Copied));
  std::string text;
  serializeJson(doc, text);
  std::string want;
  if (as_key) {
    want = "{";
    jref::print_string(content, want);
    want += ":1}";
  } else {
    jref::print_string(content, want);
  }
  ctx.executions++;
  if (text != want) {
    cs::failing_input() = content;
    ctx.fail("escaping", "content " + cs::quote_bytes(content) + " serialized as " + cs::quote_bytes(text) + ", expected " + cs::quote_bytes(want));
  }
  JsonDocument back;
  DeserializationError err = deserializeJson(back, text.data(), text.size());
  if (err != DeserializationError::Ok) {
    cs::failing_input() = content;
    ctx.fail("roundtrip", "serialized text " + cs::quote_bytes(text) + " does not parse back: " + err.c_str());
  }
  JsonString got;
  if (as_key) {
    for (JsonPairConst p : back.as<JsonObjectConst>()) got = p.key();
  } else got = back.as<JsonString>();
  if (got.isNull() || got.size() != content.size() || memcmp(got.c_str(), content.data(), content.size()) != 0) {
    cs::failing_input() = content;
    ctx.fail("roundtrip", "content " + cs::quote_bytes(content) + " came back as " +
                              (got.isNull() ? std::string("null") : cs::quote_bytes(std::string(got.c_str(), got.size()))));
  }
}

static void sweep(cs::Ctx& ctx, uint64_t shard, uint64_t nshards) {
  uint64_t idx = 0;
  // (1) all 65536 code units, three hex cases, three contexts
  for (uint32_t cu = 0; cu < 0x10000; cu++) {
    if (idx++ % nshards != shard) continue;
    bool surrogate = cu >= 0xD800 && cu <= 0xDFFF;
    for (int hc = 0; hc < 3; hc++) {
      std::string esc;
      hex4(esc, cu, hc);
      for (int context = 0; context < 3; context++) {
        ctx.evaluations++;
        if (surrogate) {
          // lone surrogate at string end / before another escape / before raw text: safety only
          check_safety(ctx, "\"" + esc + "\"");
          check_safety(ctx, "\"" + esc + "\\n\"");
          check_safety(ctx, "\"" + esc + "x\"");
          check_safety(ctx, "{\"" + esc + "\":1}");
          check_safety(ctx, "\"" + esc + "\\u0041\"");
          check_safety(ctx, "\"" + esc + esc + "\"");
          ctx.label("lone-surrogate(safety)");
        } else {
          std::string want;
          own_utf8(want, cu);
          check_escape(ctx, esc, want, context);
          ctx.counted_nontrivial++;
        }
      }
    }
  }
  // (2) all 1024 x 1024 surrogate pairs
  for (uint32_t hi = 0xD800; hi < 0xDC00; hi++) {
    if (idx++ % nshards != shard) continue;
    for (uint32_t lo = 0xDC00; lo < 0xE000; lo++) {
      std::string esc, want;
      int hc = (int)((hi + lo) % 3);
      hex4(esc, hi, hc);
      hex4(esc, lo, (hc + 1) % 3);
      own_utf8(want, 0x10000 + (((hi & 0x3FF) << 10) | (lo & 0x3FF)));
      ctx.evaluations++;
      check_escape(ctx, esc, want, (int)(lo % 3));
      ctx.counted_nontrivial++;
    }
    // high surrogate followed by a non-low escape: safety only
    std::string e1;
    hex4(e1, hi, 0);
    check_safety(ctx, "\"" + e1 + "\\u0041\"");
    check_safety(ctx, "\"" + e1 + "\\uD800\"");
    check_safety(ctx, "\"" + e1);
  }
  // (3) all single bytes and all byte pairs as content (value and key)
  for (uint32_t b = 0; b < 256; b++) {
    if (idx++ % nshards != shard) continue;
    std::string c1(1, (char)b);
    ctx.evaluations += 2;
    check_roundtrip(ctx, c1, false);
    check_roundtrip(ctx, c1, true);
    ctx.counted_nontrivial += 2;
    for (uint32_t b2 = 0; b2 < 256; b2++) {
      std::string c2 = c1 + (char)b2;
      ctx.evaluations += 2;
      check_roundtrip(ctx, c2, false);
      check_roundtrip(ctx, c2, true);
      ctx.counted_nontrivial += 2;
    }
  }
  if (ctx.samples.empty()) {
    ctx.sample("\"\\u00e9\" -> c3 a9 ; \"\\uD83D\\uDE00\" -> f0 9f 98 80 ; bytes 0x00 0x22 -> \"\\u0000\\\"\" -> same bytes");
  }
  cs::failing_input().clear();
  ctx.exhaustive_done = true;
}

static void run_case(cs::Src& s, cs::Ctx& ctx) {
  // random longer strings mixing escapes and raw bytes (beyond the exhaustive pairs)
  ctx.evaluations++;
  size_t n = 1 + (size_t)s.below(12);
  std::string esc, want;
  for (size_t i = 0; i < n; i++) {
    uint32_t cp = gen::gen_scalar(s, true);
    if (s.coin()) {
      if (cp >= 0x10000) {
        uint32_t v = cp - 0x10000;
        hex4(esc, 0xD800 + (v >> 10), (int)s.below(3));
        hex4(esc, 0xDC00 + (v & 0x3FF), (int)s.below(3));
      } else {
        hex4(esc, cp, (int)s.below(3));
      }
    } else if (cp >= 0x20 && cp != '"' && cp != '\\') {
      own_utf8(esc, cp);
    } else {
      hex4(esc, cp, 0);
    }
    own_utf8(want, cp);
  }
  ctx.current_rendering = "escapes: " + esc;
  check_escape(ctx, esc, want, (int)s.below(3));
  check_roundtrip(ctx, want, s.coin());
  ctx.nontrivial_str(esc);
}

static void replay_input(const std::string& in, cs::Ctx& ctx) {
  if (!in.empty() && (in[0] == '"' || in[0] == '{' || in[0] == '[')) check_safety(ctx, in);
  check_roundtrip(ctx, in, false);
  check_roundtrip(ctx, in, true);
}

static void witness(const std::string& name, cs::Ctx& ctx) {
  if (name == "nul_in_key") {
    check_roundtrip(ctx, std::string("a\0b", 3), true);
    return;
  }
  ctx.fail("witness", "unknown witness " + name);
}

static cs::PropDef PROP = {"C17", run_case, sweep, witness, replay_input};
CS_MAIN(PROP)
