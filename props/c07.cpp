// C07 — round trips and format conversions preserve the document.
#include <ArduinoJson.h>

#include <cfloat>

#include "../engine/runner.hpp"
#include "../gen/values.hpp"
#include "../lib/build.hpp"
#include "../lib/observe.hpp"
#include "../ref/json_ref.hpp"
#include "../ref/msgpack_ref.hpp"

using namespace ArduinoJson;
using ref::Val;

// JSON round-trip tolerance: C12 print bound for the stored kind plus C12 parse bound.
static bool num_json_roundtrip(const Val& w, const Val& g) {
  if (w.k == Val::Int) {
    if (g.k == Val::Int) return w.neg == g.neg && w.mag == g.mag;
    return false;  // integers print digit-exact and parse back as integers
  }
  long double x = w.as_ld(), y = g.as_ld();
  long double ax = fabsl(x);
  if (std::isnan((double)x) || std::isinf((double)x)) return true;  // excluded by the caller
  if (ax > 1e300L) return std::isinf((double)y) ? ((y > 0) == (x > 0)) : fabsl(x - y) <= 1e-6L * ax;
  // parse bound: 1e-13 when the printed literal carries more than seven significant digits,
  // 1e-6 otherwise (C12); the literal is obtained by printing the value alone
  std::string lit;
  {
    JsonDocument t;
    if (w.is_f32()) t.set((float)w.d); else t.set(w.d);
    serializeJson(t, lit);
  }
  numref::Literal L;
  long double parse_rel = 1e-6L;
  if (numref::parse_strict_lenient(lit, L) && numref::significant_digits(L) > 7) parse_rel = 1e-13L;
  long double tol = (w.is_f32() ? 1e-6L : 1e-9L) * fmaxl(1, ax) + parse_rel * ax;
  if (ax < 1e-300L) tol += 1e-300L;
  return fabsl(x - y) <= tol;
}

static void text_of(const Val& v, std::string& o) {
  switch (v.k) {
    case Val::Flt: {
      char b[40];
      snprintf(b, sizeof b, "%.17g", v.d);
      o += b;
      if (!strpbrk(b, ".e")) o += ".0";
      return;
    }
    case Val::Arr:
      o += '[';
      for (size_t i = 0; i < v.a.size(); i++) {
        if (i) o += ',';
        text_of(v.a[i], o);
      }
      o += ']';
      return;
    case Val::Obj:
      o += '{';
      for (size_t i = 0; i < v.o.size(); i++) {
        if (i) o += ',';
        jref::print_string(v.o[i].first, o);
        o += ':';
        text_of(v.o[i].second, o);
      }
      o += '}';
      return;
    default: jref::print(v, o);
  }
}

static void add_binext(Val& v, cs::Src& s) {
  // sprinkle bin/ext leaves into containers
  if (v.k == Val::Arr) {
    for (auto& e : v.a) add_binext(e, s);
    if (s.chance(1, 3)) {
      std::string data;
      static const size_t L[] = {0, 1, 2, 3, 4, 8, 16, 17, 255, 256};
      size_t n = L[s.below(10)];
      for (size_t i = 0; i < n; i++) data += (char)s.below(256);
      if (s.coin()) v.a.push_back(Val::raw(mref::bin_bytes(data, 0)));
      else v.a.push_back(Val::raw(mref::ext_bytes((int8_t)s.below(256), data, 0)));
    }
  } else if (v.k == Val::Obj) {
    for (auto& kv : v.o) add_binext(kv.second, s);
  }
}

#if !ARDUINOJSON_USE_DOUBLE
static void narrow_floats(Val& v) {
  if (v.k == Val::Flt && std::isfinite(v.d)) {
    float f = (float)v.d;
    if (std::isinf(f)) f = v.d < 0 ? -FLT_MAX : FLT_MAX;
    v.d = (double)f;
  }
  for (auto& e : v.a) narrow_floats(e);
  for (auto& kv : v.o) narrow_floats(kv.second);
}
#endif

static void run_case(cs::Src& s, cs::Ctx& ctx) {
  ctx.evaluations++;
  gen::Opts o;
  o.utf8_only = false;
  o.long_strings = true;
  bool msgpack_only = s.chance(1, 5);
  o.nonfinite = msgpack_only;
  if (s.chance(1, 10)) {
    o.max_depth = 9;
    o.max_children = 2;
  }
  if (s.chance(1, 8)) {  // containers with 8..40 children (fix / 16-bit count families)
    o.max_children = 40;
    o.node_budget = 80;
    o.max_depth = 2;
  }
  Val v = gen::gen_value(s, o);
#if !ARDUINOJSON_USE_DOUBLE
  // JsonFloat is float: the documents of this configuration hold float values only
  narrow_floats(v);
#endif
  if (msgpack_only) add_binext(v, s);
  ctx.current_rendering = "value: " + ref::render(v);

  lib::Arena arena;
  JsonDocument d;
  lib::BuildStats bs;
  bool ok = lib::build(d.to<JsonVariant>(), v, s, arena, &bs);
  CHECK(ctx, ok && !d.overflowed(), "build", "building the document failed");
  Val od = lib::observe(d.as<JsonVariantConst>());
  const size_t nest = v.nesting();  // calls below rely on the default nesting limit whenever the document fits it
  std::string why;
  // bin/ext raws are observed through serializeJson (raw bytes verbatim) => same bytes
  CHECK(ctx, ref::same(v, od, ref::num_exact, &why), "build", "document differs from the value it was built from: " + why);

  bool has_esc = false, has64 = false, has_flt = false;
  v.walk([&](const Val& n) {
    if (n.k == Val::Int && n.mag > UINT32_MAX) has64 = true;
    if (n.k == Val::Flt) has_flt = true;
    if (n.k == Val::Str)
      for (unsigned char c : n.s)
        if (c < 0x20 || c == '"' || c == '\\') has_esc = true;
  });

  // ---- JSON round trip
  if (!msgpack_only) {
    std::string text;
    serializeJson(d, text);
    ctx.current_rendering += "\njson: " + cs::quote_bytes(text);
    JsonDocument d2;
    DeserializationError err = (nest <= ARDUINOJSON_DEFAULT_NESTING_LIMIT ? deserializeJson(d2, text) : deserializeJson(d2, text, DeserializationOption::NestingLimit(40)));
    ctx.executions++;
    CHECK(ctx, err == DeserializationError::Ok, "json-roundtrip",
          std::string("deserializeJson(serializeJson(d)) returned ") + err.c_str());
    Val o2 = lib::observe(d2.as<JsonVariantConst>());
    why.clear();
    CHECK(ctx, ref::same(od, o2, num_json_roundtrip, &why), "json-roundtrip", "JSON round trip changed the document: " + why);
  }

  // ---- MessagePack round trip
  {
    std::string mp;
    serializeMsgPack(d, mp);
    ctx.current_rendering += "\nmsgpack: " + cs::hex_bytes(mp);
    JsonDocument d3;
    DeserializationError err = (nest <= ARDUINOJSON_DEFAULT_NESTING_LIMIT ? deserializeMsgPack(d3, mp) : deserializeMsgPack(d3, mp, DeserializationOption::NestingLimit(40)));
    ctx.executions++;
    CHECK(ctx, err == DeserializationError::Ok, "msgpack-roundtrip",
          std::string("deserializeMsgPack(serializeMsgPack(d)) returned ") + err.c_str());
    Val o3 = lib::observe(d3.as<JsonVariantConst>());
    why.clear();
    CHECK(ctx, ref::same(od, o3, ref::num_by_value, &why), "msgpack-roundtrip",
          "MessagePack round trip changed the document: " + why);
    std::string mp2;
    serializeMsgPack(d3, mp2);
    CHECK(ctx, mp2 == mp, "msgpack-reencode",
          "re-serialized MessagePack differs: " + cs::hex_bytes(mp2) + " vs " + cs::hex_bytes(mp));
  }

  // ---- cross format: text -> d1 -> msgpack -> d2 ; d2 == d1
  if (!msgpack_only) {
    std::string text;
    text_of(v, text);
    JsonDocument d1;
    DeserializationError err = (nest <= ARDUINOJSON_DEFAULT_NESTING_LIMIT ? deserializeJson(d1, text) : deserializeJson(d1, text, DeserializationOption::NestingLimit(40)));
    ctx.executions++;
    if (err == DeserializationError::Ok) {
      std::string mp;
      serializeMsgPack(d1, mp);
      JsonDocument d2;
      err = nest <= ARDUINOJSON_DEFAULT_NESTING_LIMIT ? deserializeMsgPack(d2, mp) : deserializeMsgPack(d2, mp, DeserializationOption::NestingLimit(40));
      CHECK(ctx, err == DeserializationError::Ok, "cross-format", std::string("deserializeMsgPack returned ") + err.c_str());
      Val o1 = lib::observe(d1.as<JsonVariantConst>());
      Val o2 = lib::observe(d2.as<JsonVariantConst>());
      why.clear();
      CHECK(ctx, ref::same(o1, o2, ref::num_by_value, &why), "cross-format",
            "JSON->doc->MessagePack->doc differs from JSON->doc: " + why + " text=" + cs::quote_bytes(text));
      bool has_nan = false;
      o1.walk([&](const Val& n) {
        if (n.k == Val::Flt && std::isnan(n.d)) has_nan = true;
      });
      if (!has_nan)
        CHECK(ctx, d2 == d1 && d1 == d2, "cross-format", "library operator== says the documents differ, text=" + cs::quote_bytes(text));
    } else {
      ctx.label("cross-format-input-rejected:" + std::string(err.c_str()));
    }
  }

  bool nontrivial = v.nodes() >= 3 && (has64 || has_flt || has_esc);
  if (nontrivial) ctx.nontrivial_str(ref::render(v, 4000));
  else ctx.trivial++;
  ctx.label(msgpack_only ? "msgpack-only(nonfinite/bin/ext)" : "json+msgpack");
  if (bs.linked) ctx.label("has-linked-string");
  if (has64) ctx.label("has-64bit-int");
  if (has_flt) ctx.label("has-float");
  if (ctx.want_sample() && nontrivial) ctx.sample(ref::render(v, 300));
}

static cs::PropDef PROP = {"C07", run_case, nullptr, nullptr};
CS_MAIN(PROP)
