// C03 — deserializers are memory-safe, input-bounded and source-independent on any bytes.
#include <ArduinoJson.h>

#include "../engine/runner.hpp"
#include "../gen/json_text.hpp"
#include "../gen/values.hpp"
#include "../lib/build.hpp"
#include "../lib/inspect.hpp"
#include "../lib/ledger.hpp"
#include "../lib/observe.hpp"
#include "../lib/sources.hpp"
#include "../ref/json_ref.hpp"
#include "../ref/msgpack_ref.hpp"

using namespace ArduinoJson;
using ref::Val;

struct SrcWidths : mref::Widths {
  cs::Src* s;
  uint64_t choose(uint64_t n) override { return s->below(3) ? 0 : s->below(n); }
};

#if ARDUINOJSON_ENABLE_ARDUINO_STREAM
struct MyStream : Stream {
  const std::string* data;
  size_t pos = 0;
  size_t after_end = 0;
  explicit MyStream(const std::string& d) : data(&d) {}
  int read() override {
    if (pos < data->size()) return (unsigned char)(*data)[pos++];
    after_end++;
    return -1;
  }
  size_t readBytes(char* buffer, size_t length) override {
    size_t n = 0;
    while (n < length && pos < data->size()) buffer[n++] = (*data)[pos++];
    return n;
  }
};
#endif

static const char* FILTERS[] = {nullptr, nullptr, nullptr, "true", "false", "{}", "[]", "{\"a\":true}", "{\"*\":true}", "[true]",
                                "[{\"a\":true,\"*\":[true]}]", "{\"*\":{\"*\":true}}", "[[true]]", "null", "{\"a\":[{\"b\":true}],\"ab\":false}"};
static const size_t NFILTERS = sizeof FILTERS / sizeof FILTERS[0];

struct Outcome {
  int code = -1;
  Val obs;
  std::string inspect_error;
};

template <typename Dst, typename... In>
static DeserializationError call(bool msgpack, Dst& dst, int limit, JsonDocument* filter, In&&... in) {
  auto nl = DeserializationOption::NestingLimit((uint8_t)limit);
  // every documented way of passing the options: none (the default limit), the limit alone, the
  // filter alone, and both in either order
  const bool dflt = limit == ARDUINOJSON_DEFAULT_NESTING_LIMIT;
  if (filter) {
    JsonVariantConst fv = filter->as<JsonVariantConst>();
    if (dflt) return msgpack ? deserializeMsgPack(dst, in..., DeserializationOption::Filter(fv)) : deserializeJson(dst, in..., DeserializationOption::Filter(fv));
    if (limit & 1)
      return msgpack ? deserializeMsgPack(dst, in..., nl, DeserializationOption::Filter(fv))
                     : deserializeJson(dst, in..., nl, DeserializationOption::Filter(fv));
    return msgpack ? deserializeMsgPack(dst, in..., DeserializationOption::Filter(fv), nl)
                   : deserializeJson(dst, in..., DeserializationOption::Filter(fv), nl);
  }
  if (dflt) return msgpack ? deserializeMsgPack(dst, in...) : deserializeJson(dst, in...);
  return msgpack ? deserializeMsgPack(dst, in..., nl) : deserializeJson(dst, in..., nl);
}

static Outcome deliver(cs::Ctx& ctx, bool msgpack, int kind, const std::string& bytes, int limit, const char* filter_text, bool aftermath) {
  Outcome o;
  JsonDocument fdoc;
  if (filter_text) deserializeJson(fdoc, filter_text);
  JsonDocument* filter = filter_text ? &fdoc : nullptr;
  lib::Ledger ledger;
  {
    JsonDocument doc(&ledger);
    doc["previous"] = "content";  // the destination is not empty
    DeserializationError err;
    lib::CountingReader* reader = nullptr;
#if ARDUINOJSON_ENABLE_ARDUINO_STREAM
    if (kind == 100) {
      ::String str;
      std::string z = lib::cut_at_nul(bytes);
      str.limitCapacityTo(z.size() + 16);
      str = z.c_str();
      err = call(msgpack, doc, limit, filter, str);
    } else if (kind == 101) {
      MyStream st(bytes);
      err = call(msgpack, doc, limit, filter, st);
      if (st.after_end > 1) ctx.fail("reads-after-end", "Arduino Stream was read " + std::to_string(st.after_end) + " times after its end");
    } else if (kind == 102) {
      // flash pointer: the mock offsets flash addresses by +42, so a plain read of the pointer crashes
      lib::ExactBuf b(bytes);
      auto fp = reinterpret_cast<const __FlashStringHelper*>(b.p + 42);
      err = call(msgpack, doc, limit, filter, fp, bytes.size());
    } else if (kind == 103) {
      std::string z = lib::cut_at_nul(bytes);
      z.push_back('\0');
      lib::ExactBuf b(z);
      auto fp = reinterpret_cast<const __FlashStringHelper*>(b.p + 42);
      err = call(msgpack, doc, limit, filter, fp);
    } else
#endif
    {
      err = lib::feed(kind, bytes, [&](auto&&... in) { return call(msgpack, doc, limit, filter, in...); }, &reader);
    }
    ctx.executions++;
    o.code = (int)err.code();
    if (o.code < 0 || o.code > 5) ctx.fail("unknown-code", "return code " + std::to_string(o.code) + " is not one of the six documented codes");
    if (reader) {
      // input-bounded: every byte is requested at most once, nothing is requested after the end
      if (reader->reads + 0 > bytes.size() + 1 && !msgpack)
        ctx.fail("not-input-bounded", "custom reader: " + std::to_string(reader->reads) + " read() calls for " + std::to_string(bytes.size()) + " bytes");
      if (reader->eof_hits > 1 || reader->requests_after_short)
        ctx.fail("reads-after-end", "custom reader was asked for data again after it reported the end of input");
    }
    if (!ledger.error.empty()) ctx.fail("allocator-discipline", ledger.error);
    // ---- aftermath: the document is a well-formed value whatever the code
    lib::ObserveOpts oo;
    oo.cross_checks = aftermath;
    o.obs = lib::observe(doc.as<JsonVariantConst>(), oo);
    lib::Inspector::Report rep = lib::Inspector::inspect(doc, true, false, false);
    o.inspect_error = rep.error;
    if (!rep.error.empty()) ctx.fail("malformed-document", "after code " + std::to_string(o.code) + ": " + rep.error);
    if (o.code == DeserializationError::Ok && doc.nesting() > (size_t)limit) ctx.fail("nesting", "nesting() above the limit after Ok");
    if (aftermath) {
      std::string j, m, p;
      size_t nj = serializeJson(doc, j), nm = serializeMsgPack(doc, m), np = serializeJsonPretty(doc, p);
      if (nj != measureJson(doc) || nm != measureMsgPack(doc) || np != measureJsonPretty(doc)) ctx.fail("aftermath", "measure and serialize disagree on the resulting document");
      doc.clear();
      if (ledger.live_blocks() != 0) ctx.fail("aftermath", "clear() left " + std::to_string(ledger.live_blocks()) + " live blocks");
      if (doc.overflowed()) ctx.fail("aftermath", "overflowed() still set after clear()");
      // the same input once more into the same document: same code, same value (only for kinds
      // that can be fed twice; the special Arduino kinds above are single-use here)
      if (kind < 100) {
        DeserializationError again_err = lib::feed(kind, bytes, [&](auto&&... in) { return call(msgpack, doc, limit, filter, in...); });
        if ((int)again_err.code() != o.code)
          ctx.fail("aftermath", "the same input deserialized again into the cleared document gives code " + std::to_string((int)again_err.code()) + " instead of " + std::to_string(o.code));
        lib::ObserveOpts o2;
        o2.cross_checks = false;
        Val second = lib::observe(doc.as<JsonVariantConst>(), o2);
        std::string why2;
        if (!ref::same(o.obs, second, ref::num_exact, &why2)) ctx.fail("aftermath", "the same input deserialized again into the same document gives another value: " + why2);
        lib::Inspector::Report rep2 = lib::Inspector::inspect(doc, true, false, false);
        if (!rep2.error.empty()) ctx.fail("malformed-document", "after the second deserialization: " + rep2.error);
      }
      DeserializationError e2 = deserializeJson(doc, "{\"k\":[1,\"two\",{\"3\":null}]}");
      if (e2 != DeserializationError::Ok) ctx.fail("aftermath", std::string("document cannot be reused: ") + e2.c_str());
      std::string again;
      serializeJson(doc, again);
      if (again != "{\"k\":[1,\"two\",{\"3\":null}]}") ctx.fail("aftermath", "reused document holds " + again);
    }
  }
  if (ledger.live_blocks() != 0) ctx.fail("leak", "blocks live after destruction");
  if (!ledger.error.empty()) ctx.fail("allocator-discipline", ledger.error);
  return o;
}

static void mutate(cs::Src& s, std::string& t, bool msgpack) {
  size_t n = 1 + (size_t)s.below(4);
  for (size_t i = 0; i < n; i++) {
    size_t pos = t.empty() ? 0 : (size_t)s.below(t.size());
    switch (s.below(8)) {
      case 0:
        if (!t.empty()) t.erase(pos, 1);
        break;
      case 1: t.insert(pos, 1, (char)s.below(256)); break;
      case 2:
        if (!t.empty()) t[pos] = (char)(t[pos] ^ (1 << s.below(8)));
        break;
      case 3: t.resize(pos); break;
      case 4: {  // header with a huge declared length / count
        static const char* H[] = {"\xDB\xFF\xFF\xFF\xFF", "\xDD\xFF\xFF\xFF\xFF", "\xDF\x7F\xFF\xFF\xFF", "\xC6\xFF\xFF\xFF\xF0",
                                  "\xC9\xFF\xFF\xFF\xFF", "\xDA\xFF\xFF", "\xDC\xFF\xFF", "\xC5\xFF\xFF", "\xD9\xFF"};
        if (msgpack) t.insert(pos, H[s.below(9)]);
        else t.insert(pos, s.coin() ? "\\uD800" : "1e999999999999");
        break;
      }
      case 7: {  // a number token around and beyond the 63-character scratch buffer
        size_t k = 55 + (size_t)s.below(30);
        std::string tok;
        for (size_t j = 0; j < k; j++) tok += (char)('0' + s.below(10));
        if (s.coin()) tok.insert((size_t)s.below(tok.size()), ".");
        if (s.coin()) tok += "e-" + std::to_string(s.below(400));
        t.insert(pos, msgpack ? tok : "," + tok + ",");
        break;
      }
      case 5: {  // many opening brackets
        size_t k = s.coin() ? 300 : 10000;
        t.insert(pos, std::string(k, msgpack ? '\x91' : '['));
        break;
      }
      default:
        if (!t.empty()) {
          size_t len = 1 + (size_t)s.below(8);
          t.insert(pos, t.substr((size_t)s.below(t.size()), len));  // splice
        }
    }
  }
}

static void run_case(cs::Src& s, cs::Ctx& ctx) {
  ctx.evaluations++;
  bool msgpack = s.chance(2, 5);
  gen::Opts o;
  o.utf8_only = !s.chance(1, 3);
  o.nonfinite = msgpack;
  o.dup_keys = true;
  o.long_strings = s.chance(1, 8);
  o.max_depth = (size_t)s.range(1, 6);
  if (s.chance(1, 12)) {  // wide documents: more slots than the inline pools hold on the small geometry rows
    o.max_children = 90;
    o.node_budget = 260;
    o.max_depth = 2;
  }
  std::string bytes;
  static const unsigned wsrc[] = {8, 5, 5, 2};
  bool raw = s.below(10) == 1;  // raw byte input (always under libFuzzer with the seed prefix)
  unsigned src = raw ? 3 : (unsigned)s.pick(wsrc);
  if (raw) {
    bytes = s.take_bytes(s.mode() == cs::Src::BYTES ? 600 : 40);
  } else if (src == 3) {
    size_t n = (size_t)s.below(s.coin() ? 12 : 200);
    for (size_t i = 0; i < n; i++) bytes += (char)s.below(256);
  } else {
    Val v = gen::gen_value(s, o);
    if (msgpack) {
      SrcWidths w;
      w.s = &s;
      mref::EncStats st;
      mref::encode(v, bytes, w, st);
    } else {
      gen::Spell sp;
      sp.strict = s.coin();
      sp.comments = ARDUINOJSON_ENABLE_COMMENTS;
      sp.lenient_numbers = !sp.strict;
      sp.unicode = ARDUINOJSON_DECODE_UNICODE;
      std::function<void(Val&)> fin = [&](Val& n) {
        if (n.k == Val::Flt && !std::isfinite(n.d)) n.d = 1.25;
        for (auto& e : n.a) fin(e);
        for (auto& kv : n.o) fin(kv.second);
      };
      fin(v);
      bytes = gen::spell_document(s, sp, v);
    }
    if (src == 1 && !bytes.empty()) {  // truncation, biased to offsets inside tokens
      std::vector<size_t> cand;
      for (size_t i = 0; i < bytes.size(); i++) {
        unsigned char c = (unsigned char)bytes[i];
        if (!msgpack && (c == '\\' || c == '"' || c == '\'' || c == 'u' || c == 'e' || c == '-' || c == '.' || c == 't' || c == 'n' || c == '/' || c == '*' || c == ':'))
          cand.push_back(i + 1);
        if (msgpack && c >= 0xC4 && c <= 0xDF)
          for (size_t k = 1; k <= 5; k++) cand.push_back(i + k);
      }
      size_t cut = (!cand.empty() && s.coin()) ? cand[s.below(cand.size())] : (size_t)s.below(bytes.size());
      if (cut < bytes.size()) bytes.resize(cut);
    }
    if (src == 2) mutate(s, bytes, msgpack);
  }
  int limit = s.chance(1, 3) ? (int)s.below(256) : 10;
  const char* filter = FILTERS[s.below(NFILTERS)];
  ctx.current_rendering = std::string(msgpack ? "msgpack: " + cs::hex_bytes(bytes, 400) : "json: " + cs::quote_bytes(bytes, 800)) +
                          "\nlimit=" + std::to_string(limit) + " filter=" + (filter ? filter : "(none)");
  // ---- deliver through every applicable kind
  std::vector<int> kinds;
  for (int k = 0; k < lib::K_COUNT; k++) {
    if (msgpack && lib::kind_zero_terminated(k)) continue;  // MessagePack only through bounded kinds
    kinds.push_back(k);
  }
#if ARDUINOJSON_ENABLE_ARDUINO_STREAM
  kinds.push_back(101);
  kinds.push_back(102);
  if (!msgpack) {
    kinds.push_back(100);
    kinds.push_back(103);
  } else if (bytes.find('\0') == std::string::npos) {
    kinds.push_back(100);  // Arduino String is a bounded kind (the mock cannot hold NUL bytes)
  }
  ctx.label("arduino-kinds");
#endif
  std::string cut = lib::cut_at_nul(bytes);
  Outcome first;
  int first_kind = -1;
  size_t aftermath_at = (size_t)s.below(kinds.size());
  for (size_t i = 0; i < kinds.size(); i++) {
    int k = kinds[i];
    Outcome r = deliver(ctx, msgpack, k, bytes, limit, filter, i == aftermath_at);
    ctx.label(std::string(msgpack ? "mp" : "js") + "-code" + std::to_string(r.code));
    if (first_kind < 0) {
      first = r;
      first_kind = k;
      continue;
    }
    // source independence (JSON: a NUL byte ends the input for every kind)
    std::string why;
    auto kname = [](int kk) { return kk >= 100 ? std::string("arduino#") + std::to_string(kk) : std::string(lib::kind_name(kk)); };
    if (r.code != first.code)
      ctx.fail("source-dependent-code", "input kind " + kname(k) + " returned code " + std::to_string(r.code) + " but " + kname(first_kind) + " returned " + std::to_string(first.code));
    if (!ref::same(first.obs, r.obs, ref::num_exact, &why))
      ctx.fail("source-dependent-document", "input kind " + kname(k) + " produced another document than " + kname(first_kind) + ": " + why);
  }
  if (first.code != DeserializationError::EmptyInput && bytes.size() >= 4) ctx.nontrivial_str(bytes + (filter ? filter : "") + char(limit));
  else ctx.trivial++;
  ctx.label(src == 0 ? "valid" : src == 1 ? "truncated" : src == 2 ? "mutated" : "random");
  if (filter) ctx.label("with-filter");
  if (ctx.want_sample() && bytes.size() < 80 && !msgpack) ctx.sample(cs::quote_bytes(bytes));
}

static void witness(const std::string& name, cs::Ctx& ctx) {
  if (name == "msgpack_wildcard_over_array") {
    deliver(ctx, true, lib::K_PTR_SIZE, std::string("\x91\x01", 2), 10, "{\"*\":true}", true);
    return;
  }
  ctx.fail("witness", "unknown witness " + name);
}

static cs::PropDef PROP = {"C03", run_case, nullptr, witness};
CS_MAIN(PROP)
