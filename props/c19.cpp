// C19 — capacity limits are clean edges and semantics do not depend on pool geometry.
// Built once per (SLOT_ID_SIZE, POOL_CAPACITY, INITIAL_POOL_COUNT, STRING_LENGTH_SIZE) row.
// The differential part re-uses the C04 history case: operations are generated from the model
// only, so every row executes the same histories from the same seed and each must equal the model.
#include "history_case.hpp"

#include "../ref/msgpack_ref.hpp"

static const size_t MAX_SLOTS = (size_t)ArduinoJson::detail::NULL_SLOT;  // ids 0..NULL_SLOT-1
static const size_t MAX_LEN = (size_t)ArduinoJson::detail::StringNode::maxLength;

static void expect_clean(cs::Ctx& ctx, JsonDocument& doc, lib::Ledger& ledger, const std::string& what, bool allow_leaks) {
  if (!ledger.error.empty()) ctx.fail("allocator-discipline", what + ": " + ledger.error);
  lib::Inspector::Report rep = lib::Inspector::inspect(doc, allow_leaks, false, true);
  if (!rep.error.empty()) ctx.fail("internal-invariant", what + ": " + rep.error);
  try {
    lib::ObserveOpts oo;
    oo.cross_checks = false;
    lib::observe(doc.as<JsonVariantConst>(), oo);
  } catch (lib::ObserveError& e) {
    ctx.fail("observation", what + ": " + e.what);
  }
}

// fill a container until the slot limit, then remove / refill / clear
static void fill_scenario(cs::Src& s, cs::Ctx& ctx, int kind) {
  if (MAX_SLOTS > 70000) {
    ctx.label("slot-limit-not-reachable(4-byte ids)");
    return;
  }
  if (kind == 2 && MAX_SLOTS > 300) kind = 1;  // member insertion is quadratic: objects only on 1-byte ids
  lib::Ledger ledger;
  lib::Arena arena;
  JsonDocument doc(&ledger);
  size_t ok = 0;
  size_t per = kind == 0 ? 1 : 2;  // slots per successful insertion
  bool failed = false;
  std::vector<std::string> keys;
  for (size_t i = 0; i < MAX_SLOTS + 8; i++) {
    bool r;
    switch (kind) {
      case 0: r = doc.add((int)(i & 0x7FFF)); break;
#if ARDUINOJSON_USE_LONG_LONG
      case 1: r = doc.add((uint64_t)0x100000000ull + i); break;  // 64-bit: value slot + extension slot
#else
      case 1: r = doc.add(1.1 + (double)i); break;  // 32-bit integers: a double that no float represents takes the extension slot
#endif
      default: {
        keys.push_back("k" + std::to_string(i));
        r = doc[arena.keep(keys.back())].set((int)i);  // linked key: key slot + value slot
      }
    }
    if (!r) {
      failed = true;
      break;
    }
    ok++;
  }
  std::string what = "fill kind " + std::to_string(kind);
  ctx.executions += ok;
  if (!failed) ctx.fail("no-limit", what + ": " + std::to_string(ok) + " insertions succeeded, the slot id type allows " + std::to_string(MAX_SLOTS) + " slots");
  size_t expect_ok = MAX_SLOTS / per;
  if (ok != expect_ok) ctx.fail("limit-position", what + ": " + std::to_string(ok) + " insertions succeeded, expected " + std::to_string(expect_ok));
  if (!doc.overflowed()) ctx.fail("overflowed-not-set", what + ": the failing insertion did not set overflowed()");
  if (doc.size() != ok) ctx.fail("document-not-intact", what + ": size() = " + std::to_string(doc.size()) + " after the failing insertion, expected " + std::to_string(ok));
  expect_clean(ctx, doc, ledger, what + " at the limit", kind == 2);
  // the values are still the ones that were inserted
  if (kind == 0 && (doc[0].as<int>() != 0 || doc[ok - 1].as<int>() != (int)((ok - 1) & 0x7FFF))) ctx.fail("document-not-intact", what + ": element values changed");
#if ARDUINOJSON_USE_LONG_LONG
  if (kind == 1 && doc[ok - 1].as<uint64_t>() != 0x100000000ull + ok - 1) ctx.fail("document-not-intact", what + ": 64-bit element values changed");
#else
  if (kind == 1 && doc[ok - 1].as<double>() != 1.1 + (double)(ok - 1)) ctx.fail("document-not-intact", what + ": 64-bit element values changed");
#endif
  if (kind == 2 && doc[keys[ok - 1]].as<int>() != (int)(ok - 1)) ctx.fail("document-not-intact", what + ": member values changed");
  // usable again after removals
  size_t k = 1 + (size_t)s.below(10);
  for (size_t i = 0; i < k; i++) {
    if (kind == 2) doc.remove(keys[i]);
    else doc.remove((size_t)s.below(doc.size()));
  }
  if (doc.size() != ok - k) ctx.fail("remove-at-limit", what + ": size() after removing " + std::to_string(k) + " values is " + std::to_string(doc.size()));
  for (size_t i = 0; i < k; i++) {
#if ARDUINOJSON_USE_LONG_LONG
    bool r = kind == 0 ? doc.add(7) : kind == 1 ? doc.add((int64_t)-0x100000000ll - (int64_t)i) : doc[arena.keep("again" + std::to_string(i))].set(1.5f);
#else
    bool r = kind == 0 ? doc.add(7) : kind == 1 ? doc.add(-1.1 - (double)i) : doc[arena.keep("again" + std::to_string(i))].set(1.5f);
#endif
    if (!r) ctx.fail("not-usable-after-removal", what + ": insertion " + std::to_string(i + 1) + " of " + std::to_string(k) + " failed after " + std::to_string(k) + " values were removed");
  }
  if (doc.size() != ok) ctx.fail("document-not-intact", what + ": size() after refill");
#if ARDUINOJSON_USE_LONG_LONG
  bool more = kind == 0 ? doc.add(1) : kind == 1 ? doc.add((uint64_t)1 << 40) : doc["onemore"].set(1);
#else
  bool more = kind == 0 ? doc.add(1) : kind == 1 ? doc.add(2.2) : doc["onemore"].set(1);
#endif
  if (more && ok * per + per > MAX_SLOTS) ctx.fail("limit-position", what + ": an insertion beyond the limit succeeded after the refill");
  expect_clean(ctx, doc, ledger, what + " after refill", true);
  // cleared: works normally again
  doc.clear();
  if (doc.overflowed()) ctx.fail("overflowed-after-clear", what);
  if (ledger.live_blocks() != 0) ctx.fail("leak-after-clear", what + ": " + std::to_string(ledger.live_blocks()) + " blocks live after clear()");
  doc["a"][1] = "works";
  std::string out;
  serializeJson(doc, out);
  if (out != "{\"a\":[null,\"works\"]}" || doc.overflowed()) ctx.fail("not-usable-after-clear", what + ": " + out);
  ctx.label("slot-limit-hit");
}

// strings of maxLen-1, maxLen, maxLen+1 through set, key, JSON text and MessagePack
static void string_scenario(cs::Src& s, cs::Ctx& ctx, int via) {
  if (MAX_LEN > 70000) {
    ctx.label("string-limit-not-reachable(4-byte lengths)");
    return;
  }
  for (long delta = -1; delta <= 1; delta++) {
    size_t len = (size_t)((long)MAX_LEN + delta);
    bool fits = len <= MAX_LEN;
    std::string str(len, 'x');
    str[len / 2] = (char)('a' + s.below(26));
    lib::Ledger ledger;
    JsonDocument doc(&ledger);
    doc["keep"] = 42;
    std::string what = "string of " + std::to_string(len) + " bytes (max " + std::to_string(MAX_LEN) + ") via " + std::to_string(via);
    bool reported = false, present = false;
    switch (via) {
      case 0: {
        bool r = doc["s"].set(str);
        reported = !r;
        present = doc["s"].is<const char*>();
        if (present && doc["s"].as<std::string>() != str) ctx.fail("string-corrupted", what);
        break;
      }
      case 1: {
        bool r = doc[str].set(1);
        reported = !r;
        present = doc[str].is<int>();
        break;
      }
      case 2: {
        std::string text = "{\"s\":\"" + str + "\"}";
        JsonDocument d2(&ledger);
        DeserializationError err = deserializeJson(d2, text);
        reported = err == DeserializationError::NoMemory;
        if (err != DeserializationError::Ok && err != DeserializationError::NoMemory) ctx.fail("wrong-code", what + ": " + err.c_str());
        present = d2["s"].is<const char*>() && d2["s"].as<std::string>() == str;
        if (fits && !present) ctx.fail("string-lost", what + ": the string was not stored");
        expect_clean(ctx, d2, ledger, what, true);
        break;
      }
      default: {
        std::string mp = "\x81\xA1s";
        mref::Widths w;
        mref::EncStats st;
        mref::encode_str(str, mp, w, st);
        JsonDocument d2(&ledger);
        DeserializationError err = deserializeMsgPack(d2, mp.data(), mp.size());
        reported = err == DeserializationError::NoMemory;
        if (err != DeserializationError::Ok && err != DeserializationError::NoMemory) ctx.fail("wrong-code", what + ": " + err.c_str());
        present = d2["s"].is<const char*>() && d2["s"].as<std::string>() == str;
        if (fits && !present) ctx.fail("string-lost", what + ": the string was not stored");
        expect_clean(ctx, d2, ledger, what, true);
      }
    }
    ctx.executions++;
    if (fits) {
      if (reported || !present) ctx.fail("limit-position", what + ": a string within the limit was refused");
    } else {
      if (!reported) ctx.fail("limit-not-reported", what + ": a string above the limit was not refused");
      if (present) ctx.fail("limit-not-enforced", what + ": a string above the limit is present (length wrapped?)");
      if (via <= 1 && !doc.overflowed()) ctx.fail("overflowed-not-set", what);
    }
    if (doc["keep"].as<int>() != 42) ctx.fail("document-not-intact", what + ": another member changed");
    expect_clean(ctx, doc, ledger, what, true);
    // a refused string leaves nothing behind: every block is back once the documents are emptied
    doc.clear();
    if (ledger.live_blocks() != 0) ctx.fail("leak-after-clear", what + ": " + std::to_string(ledger.live_blocks()) + " blocks (" + std::to_string(ledger.live_bytes) + " bytes) live after clear()");
    ctx.label("string-limit-hit");
  }
}

// many references to one copied string (reference counts have the slot id type)
static void refcount_scenario(cs::Src& s, cs::Ctx& ctx) {
  lib::Ledger ledger;
  JsonDocument doc(&ledger);
  size_t ok = 0;
  // as many references as slots exist; with 4-byte ids: more than a 2-byte counter could hold
  size_t want = MAX_SLOTS > 70000 ? 66000 : MAX_SLOTS;
  for (size_t i = 0; i < want + (MAX_SLOTS > 70000 ? 0 : 4); i++) {
    if (!doc.add(std::string("shared"))) break;
    ok++;
  }
  if (ok != want) ctx.fail("limit-position", "refcount scenario: " + std::to_string(ok) + " insertions");
  expect_clean(ctx, doc, ledger, "max references to one string", false);
  size_t k = 1 + (size_t)s.below(ok);
  for (size_t i = 0; i < k; i++) doc.remove((size_t)0);
  expect_clean(ctx, doc, ledger, "after removing references", false);
  if (doc.size() != ok - k) ctx.fail("document-not-intact", "refcount scenario size");
  if (ok > k && doc[0].as<std::string>() != "shared") ctx.fail("shared-string-lost", "remaining users lost their string");
  doc.clear();
  if (ledger.live_blocks() != 0) ctx.fail("leak-after-clear", "refcount scenario");
  ctx.executions += ok;
  ctx.label("refcount-limit-hit");
}

static void run_case(cs::Src& s, cs::Ctx& ctx) {
  // 1 case in 50 is a limit scenario (they are expensive on 2-byte ids); the rest are histories
  if (!s.enumerating() && s.chance(1, (MAX_SLOTS > 300 ? 400 : 50))) {
    ctx.evaluations++;
    unsigned which = (unsigned)s.below(8);
    ctx.current_rendering = "limit scenario " + std::to_string(which);
    if (which < 3) fill_scenario(s, ctx, (int)which);
    else if (which < 7) string_scenario(s, ctx, (int)which - 3);
    else refcount_scenario(s, ctx);
    ctx.nontrivial(cs::hash_u64(which * 1000003ull + s.consumed() + ctx.evaluations * 7919ull));
    return;
  }
  history_case(s, ctx);
}

static void witness(const std::string& name, cs::Ctx& ctx) {
  cs::Src s;
  s.init_random(12345);
  if (name == "slot_limit_after_shrink") {
    // pool table capacity that is not a power of two (after shrinkToFit) must still stop at maxPools
    if (MAX_SLOTS > 70000) return;
    lib::Ledger ledger;
    JsonDocument doc(&ledger);
    for (int i = 0; i < 5 * ARDUINOJSON_POOL_CAPACITY; i++) doc.add(i);
    doc.shrinkToFit();
    size_t n = doc.size();
    for (size_t i = 0; i < MAX_SLOTS + 8; i++) {
      if (!doc.add(1)) break;
      n++;
    }
    if (n > MAX_SLOTS) ctx.fail("limit-position", "more values stored than slot ids exist");
    expect_clean(ctx, doc, ledger, "fill after shrinkToFit", false);
    if (doc.size() != n) ctx.fail("document-not-intact", "size after fill");
    return;
  }
  if (name == "shrink_burns_pool_ids") {
    if (MAX_SLOTS > 70000) return;
    JsonDocument doc;
    size_t n = 0;
    for (int i = 0; i < 10; i++) {
      if (!doc.add(i)) ctx.fail("geometry-dependent", "add() failed with " + std::to_string(n) + " slots in use (limit " + std::to_string(MAX_SLOTS) + ") after " + std::to_string(i) + " shrinkToFit() calls");
      n++;
      doc.shrinkToFit();
    }
    return;
  }
  if (name == "limits") {
    for (int k = 0; k < 3; k++) fill_scenario(s, ctx, k);
    for (int v = 0; v < 4; v++) string_scenario(s, ctx, v);
    refcount_scenario(s, ctx);
    return;
  }
  ctx.fail("witness", "unknown witness " + name);
}

static cs::PropDef PROP = {"C19", run_case, nullptr, witness};
CS_MAIN(PROP)
