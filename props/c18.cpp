// C18 — comparison operators form one coherent relation that agrees with the values.
#include <ArduinoJson.h>

#include "../engine/runner.hpp"
#include "../gen/values.hpp"
#include "../lib/build.hpp"
#include "../lib/observe.hpp"

using namespace ArduinoJson;
using ref::Val;

enum Tri { NO = 0, YES = 1, ZONE = 2 };

static bool is_num(const Val& v) { return v.k == Val::Int || v.k == Val::Flt; }

// three-way numeric comparison by value: -1, 0, 1; 2 = unordered (NaN)
static int num_cmp(const Val& a, const Val& b) {
  if (a.k == Val::Int && b.k == Val::Int) {
    __int128 x = a.neg ? -(__int128)a.mag : (__int128)a.mag, y = b.neg ? -(__int128)b.mag : (__int128)b.mag;
    return x < y ? -1 : x > y ? 1 : 0;
  }
  double x = a.k == Val::Int ? (a.neg ? -(double)a.mag : (double)a.mag) : a.d;
  double y = b.k == Val::Int ? (b.neg ? -(double)b.mag : (double)b.mag) : b.d;
  if (std::isnan(x) || std::isnan(y)) return 2;
  return x < y ? -1 : x > y ? 1 : 0;
}

static Tri model_eq(const Val& a, const Val& b) {
  if (is_num(a) && is_num(b)) {
    int c = num_cmp(a, b);
    return c == 2 ? ZONE : c == 0 ? YES : NO;
  }
  if ((a.k == Val::Bool && is_num(b)) || (b.k == Val::Bool && is_num(a))) return ZONE;
  if (a.k != b.k) return NO;
  switch (a.k) {
    case Val::Null: return YES;
    case Val::Bool: return a.b == b.b ? YES : NO;
    case Val::Str:
    case Val::Raw: return a.s == b.s ? YES : NO;
    case Val::Arr: {
      if (a.a.size() != b.a.size()) return NO;
      bool zone = false;
      for (size_t i = 0; i < a.a.size(); i++) {
        Tri t = model_eq(a.a[i], b.a[i]);
        if (t == NO) return NO;  // a definite difference decides
        if (t == ZONE) zone = true;
      }
      return zone ? ZONE : YES;
    }
    case Val::Obj: {
      if (ref::has_duplicate_keys(a) || ref::has_duplicate_keys(b)) return ZONE;
      if (a.o.size() != b.o.size()) return NO;
      bool zone = false;
      for (auto& kv : a.o) {
        const Val* other = b.find(kv.first);
        if (!other) return NO;
        Tri t = model_eq(kv.second, *other);
        if (t == NO) return NO;
        if (t == ZONE) zone = true;
      }
      return zone ? ZONE : YES;
    }
    default: return NO;
  }
}

struct Ops {
  bool eq, ne, lt, le, gt, ge;
};
template <typename A, typename B>
static Ops ops_of(const A& a, const B& b) {
  return Ops{a == b, a != b, a < b, a <= b, a > b, a >= b};
}

static void check_laws(cs::Ctx& ctx, const Ops& ab, const Ops& ba, const std::string& what) {
  auto fail = [&](const char* law) {
    char b[200];
    snprintf(b, sizeof b, " [a?b: ==%d !=%d <%d <=%d >%d >=%d | b?a: ==%d !=%d <%d <=%d >%d >=%d]", ab.eq, ab.ne, ab.lt, ab.le, ab.gt, ab.ge,
             ba.eq, ba.ne, ba.lt, ba.le, ba.gt, ba.ge);
    ctx.fail("law", what + ": " + law + b);
  };
  if (ab.eq != ba.eq) fail("a==b but not b==a");
  if (ab.ne != !ab.eq) fail("a!=b is not the negation of a==b");
  if (ba.ne != !ba.eq) fail("b!=a is not the negation of b==a");
  if (ab.lt != ba.gt) fail("a<b differs from b>a");
  if (ab.gt != ba.lt) fail("a>b differs from b<a");
  if (ab.le != (ab.lt || ab.eq)) fail("a<=b differs from a<b || a==b");
  if (ab.ge != (ab.gt || ab.eq)) fail("a>=b differs from a>b || a==b");
  if (ba.le != (ba.lt || ba.eq)) fail("b<=a differs from b<a || b==a");
  if (ba.ge != (ba.gt || ba.eq)) fail("b>=a differs from b>a || b==a");
  if ((int)ab.lt + (int)ab.eq + (int)ab.gt > 1) fail("more than one of a<b, a==b, a>b");
}

static void check_model(cs::Ctx& ctx, const Val& a, const Val& b, const Ops& ab, const std::string& what) {
  Tri e = model_eq(a, b);
  if (e == ZONE) {
    ctx.unspecified("nan-or-bool-vs-number-or-duplicate-keys");
    return;
  }
  if (ab.eq != (e == YES)) ctx.fail("value-agreement", what + ": a==b is " + (ab.eq ? "true" : "false") + " but the values are " + (e == YES ? "equal" : "different"));
  if (is_num(a) && is_num(b)) {
    int c = num_cmp(a, b);
    if (ab.lt != (c < 0) || ab.gt != (c > 0)) ctx.fail("value-agreement", what + ": numeric ordering is wrong");
  }
}

struct Item {
  Val model;
  JsonVariantConst ref;
  bool unbound = false;
};

static Val twin_number(cs::Src& s) {
  static const unsigned w[] = {4, 3, 3};
  switch (s.pick(w)) {
    case 0: {
      static const int64_t small[] = {0, 1, -1, 5, 255, -128, 65536};
      return Val::sint(small[s.below(7)]);
    }
    case 1: {
      static const uint64_t big[] = {9007199254740992ull, 9007199254740993ull, 9223372036854775807ull, 9223372036854775808ull,
                                     18446744073709551615ull, 4294967295ull, 4294967296ull, 2147483648ull};
      uint64_t m = big[s.below(8)];
      if (s.coin() && m <= (1ull << 63)) return Val::negmag(m);
      return Val::uint(m);
    }
    default: return gen::gen_int(s);
  }
}

static void run_case(cs::Src& s, cs::Ctx& ctx) {
  ctx.evaluations++;
  lib::Arena arena;
  JsonDocument d1, d2;
  std::vector<Val> models;
  // ---- build a pool with deliberate twins
  gen::Opts o;
  o.utf8_only = false;
  o.nonfinite = true;
  o.raw = true;
  o.max_depth = 3;
  o.node_budget = 8;
  size_t n = 5 + (size_t)s.below(6);
  static const char* strs[] = {"", "a", "ab", "abc", "b", "\xC3\xA9", "10", "A"};
  static const char* raws[] = {"1", "12", "[1]", "[1,2]", "true", "ab", "abc", ""};
  for (size_t i = 0; i < n; i++) {
    static const unsigned w[] = {5, 3, 3, 2, 4, 3, 2, 2};
    Val v;
    switch (s.pick(w)) {
      case 0: v = twin_number(s); break;
      case 1: {  // the same value as a float/double
        Val t = twin_number(s);
        v = Val::flt((double)t.as_ld());
        if (s.chance(1, 4)) v.d += 0.5;
        break;
      }
      case 2: v = Val::str(strs[s.below(8)]); break;
      case 3: v = Val::raw(raws[s.below(8)]); break;
      case 4: {
        v = gen::gen_value(s, o);
        break;
      }
      case 5:
        if (!models.empty()) {  // a copy / permutation / prefix of an earlier item
          v = models[s.below(models.size())];
          if (v.k == Val::Obj && v.o.size() >= 2 && s.coin()) std::swap(v.o[0], v.o[v.o.size() - 1]);
          else if (v.k == Val::Arr && !v.a.empty() && s.coin()) v.a.pop_back();
          else if (v.k == Val::Obj && !v.o.empty() && s.chance(1, 3)) v.o.pop_back();
          else if (v.k == Val::Str && s.chance(1, 3)) v.s += std::string("\0x", 2);
        } else v = Val::null();
        break;
      case 6: v = s.coin() ? Val::boolean(s.coin()) : Val::null(); break;
      default: {
        static const double F[] = {NAN, INFINITY, -INFINITY, 0.0, -0.0, 1e300, 0.1, 4.9e-324};
        v = Val::flt(F[s.below(8)]);
      }
    }
    // duplicates are a zone for objects: the builder cannot create them anyway
    models.push_back(v);
  }
  std::vector<Item> pool;
  for (size_t i = 0; i < models.size(); i++) {
    JsonDocument& d = s.coin() ? d1 : d2;
    JsonVariant slot = d.add<JsonVariant>();
    if (!lib::build(slot, models[i], s, arena)) ctx.fail("build", "pool could not be built");
    lib::ObserveOpts oo;
    oo.cross_checks = false;
    Item it;
    it.model = lib::observe(slot, oo);  // what the document holds (floats normalised)
    it.ref = slot;
    pool.push_back(it);
  }
  {
    Item u;
    u.model = Val::null();
    u.ref = JsonVariantConst();
    u.unbound = true;
    pool.push_back(u);
  }
  std::string rendering = "pool:";
  for (size_t i = 0; i < pool.size(); i++) rendering += "\n  #" + std::to_string(i) + " " + ref::render(pool[i].model, 200) + (pool[i].unbound ? " (unbound)" : "");
  ctx.current_rendering = rendering;
  bool mixed = false;
  // ---- all ordered pairs
  for (size_t i = 0; i < pool.size(); i++)
    for (size_t j = i; j < pool.size(); j++) {
      Ops ab = ops_of(pool[i].ref, pool[j].ref), ba = ops_of(pool[j].ref, pool[i].ref);
      ctx.executions += 12;
      std::string what = "a=#" + std::to_string(i) + " b=#" + std::to_string(j);
      check_laws(ctx, ab, ba, what);
      check_model(ctx, pool[i].model, pool[j].model, ab, what);
      const Val &a = pool[i].model, &b = pool[j].model;
      if ((is_num(a) && is_num(b) && a.k != b.k) || a.is_container() || (a.k == Val::Str && b.k == Val::Str && a.s != b.s && (a.s.rfind(b.s, 0) == 0 || b.s.rfind(a.s, 0) == 0)))
        mixed = true;
    }
  // ---- variant against C++ scalars and strings, both operand orders
  for (size_t i = 0; i < pool.size(); i++) {
    JsonVariantConst v = pool[i].ref;
    const Val& m = pool[i].model;
    std::string what = "a=#" + std::to_string(i) + " b=C++ ";
#define SCALAR(expr, modelval, name)                                \
  {                                                                 \
    auto rhs = (expr);                                              \
    Ops ab = ops_of(v, rhs), ba = ops_of(rhs, v);                     \
    ctx.executions += 12;                                           \
    check_laws(ctx, ab, ba, what + name);                           \
    check_model(ctx, m, (modelval), ab, what + name);               \
  }
    Val t = twin_number(s);
    if (t.fits_i64()) {
      SCALAR((long long)t.as_i64(), t, "long long " + ref::render(t));
      if (t.as_i64() >= INT32_MIN && t.as_i64() <= INT32_MAX) SCALAR((int)t.as_i64(), t, "int " + ref::render(t));
      if (t.as_i64() >= -128 && t.as_i64() <= 127) SCALAR((signed char)t.as_i64(), t, "signed char " + ref::render(t));
    }
    if (t.fits_u64()) {
      SCALAR((unsigned long long)t.mag, t, "unsigned long long " + ref::render(t));
      if (t.mag <= UINT32_MAX) SCALAR((unsigned)t.mag, t, "unsigned " + ref::render(t));
    }
    {
      double dv = (double)t.as_ld() + (s.coin() ? 0.0 : 0.5);
      SCALAR(dv, Val::flt(dv), "double");
      float fv = (float)dv;
      SCALAR(fv, Val::flt((double)fv), "float");
    }
    if (is_num(m)) {  // the value itself as a C++ scalar
      if (m.k == Val::Int && m.fits_i64()) SCALAR((long long)m.as_i64(), m, "own value as long long");
      if (m.k == Val::Int && m.fits_u64()) SCALAR((unsigned long long)m.mag, m, "own value as unsigned long long");
      if (m.k == Val::Flt) SCALAR(m.d, m, "own value as double");
    }
    SCALAR(true, Val::boolean(true), "true");
    SCALAR(false, Val::boolean(false), "false");
    {
      const char* cs_ = strs[s.below(8)];
      SCALAR(cs_, Val::str(cs_), std::string("const char* ") + cs_);
      std::string ss = cs_;
      SCALAR(ss, Val::str(ss), std::string("std::string ") + cs_);
      if (m.k == Val::Str && m.s.find('\0') == std::string::npos) {
        std::string own = m.s;
        SCALAR(own, m, "own text as std::string");
        const char* ownc = arena.keep(m.s);
        SCALAR(ownc, m, "own text as const char*");
      }
    }
#undef SCALAR
    {
      // nullptr: equality only (ordering against nullptr is not offered for all types)
      bool e1 = v == nullptr, e2 = nullptr == v, n1 = v != nullptr, n2 = nullptr != v;
      bool want = m.k == Val::Null;
      if (e1 != want || e2 != want || n1 == want || n2 == want) ctx.fail("nullptr", what + "nullptr: wrong equality");
    }
  }
  if (mixed) ctx.nontrivial_str(rendering);
  else ctx.trivial++;
  if (ctx.want_sample()) ctx.sample(rendering.substr(0, 400));
}

static void witness(const std::string& name, cs::Ctx& ctx) {
  if (name == "raw_prefix") {
    JsonDocument d;
    d.add(serialized("ab"));
    d.add(serialized("abc"));
    Ops ab = ops_of(d[0], d[1]), ba = ops_of(d[1], d[0]);
    check_laws(ctx, ab, ba, "raw ab vs abc");
    check_model(ctx, Val::raw("ab"), Val::raw("abc"), ab, "raw ab vs abc");
    return;
  }
  if (name == "unsigned_vs_negative_int") {
    JsonDocument d;
    d.add(0u);
    d.add(18446744073709551615ull);
    for (int i = 0; i < 2; i++) {
      Val m = i == 0 ? Val::uint(0) : Val::uint(18446744073709551615ull);
      Ops ab = ops_of(d[i], -1), ba = ops_of(-1, d[i]);
      check_laws(ctx, ab, ba, "unsigned variant vs int -1");
      check_model(ctx, m, Val::sint(-1), ab, "unsigned variant vs int -1");
      Ops ab2 = ops_of(d[i], (signed char)-1), ba2 = ops_of((signed char)-1, d[i]);
      check_laws(ctx, ab2, ba2, "unsigned variant vs signed char -1");
      check_model(ctx, m, Val::sint(-1), ab2, "unsigned variant vs signed char -1");
    }
    return;
  }
  ctx.fail("witness", "unknown witness " + name);
}

static cs::PropDef PROP = {"C18", run_case, nullptr, witness};
CS_MAIN(PROP)
