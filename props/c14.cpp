// C14 — how a string is stored (linked, copied, de-duplicated) is unobservable.
// The same model-generated history is executed in lockstep once per string source kind; after
// every step the full observable vector must be identical in all runs and equal the model's.
#include "history_case.hpp"

static bool g_self_unequal = false;  // set when a string compares unequal to itself

// every observable of a value that may depend on how its strings are stored
static void observe_value(JsonVariantConst v, std::string& out, int depth = 0) {
  if (depth > 30) return;
  char b[200];
  snprintf(b, sizeof b, "{n%d b%d i%d u%d l%d f%d s%d a%d o%d|", (int)v.isNull(), (int)v.is<bool>(), (int)v.is<int>(), (int)v.is<unsigned long long>(),
           (int)v.is<long long>(), (int)v.is<double>(), (int)v.is<const char*>(), (int)v.is<JsonArrayConst>(), (int)v.is<JsonObjectConst>());
  out += b;
  snprintf(b, sizeof b, "%d %ld %lld %llu %d %u %.17g %.9g %d|", (int)v.as<signed char>(), v.as<long>(), v.as<long long>(), v.as<unsigned long long>(),
           (int)v.as<short>(), v.as<unsigned>(), v.as<double>(), (double)v.as<float>(), (int)v.as<bool>());
  out += b;
  out += v.is<std::string>() ? "S1" : "S0";
  out += v.is<std::string_view>() ? "V1" : "V0";
  out += v.is<JsonString>() ? "J1" : "J0";
  const char* c = v.as<const char*>();
  JsonString js = v.as<JsonString>();
  std::string ss = v.as<std::string>();
  std::string_view sv = v.as<std::string_view>();
  out += c ? "c" + cs::quote_bytes(c, 80) : "c-";
  out += js.isNull() ? "j-" : "j" + cs::quote_bytes(std::string(js.c_str(), js.size()), 80);
  out += "s" + cs::quote_bytes(ss, 80);
  out += "v" + cs::quote_bytes(std::string(sv.data() ? sv.data() : "", sv.size()), 80);
  // comparisons with strings and scalars, both operand orders
  static const char* probes[] = {"", "a", "shared", "3.25", "1e3", "key", "m"};
  for (const char* p : probes) {
    std::string sp = p;
    snprintf(b, sizeof b, "%d%d%d%d%d%d%d%d", (int)(v == p), (int)(p == v), (int)(v != p), (int)(v < p), (int)(p < v), (int)(v == sp), (int)(sp == v), (int)(v >= sp));
    out += b;
  }
  if (js.c_str()) {
    std::string own(js.c_str(), js.size());
    snprintf(b, sizeof b, "=%d%d%d", (int)(v == own), (int)(own == v), (int)(v == JsonString(own.data(), own.size(), JsonString::Copied)));
    out += b;
  }
  if (js.c_str()) {
    // a string equals itself, also when compared variant against variant
    JsonVariantConst self = v;
    bool refl = v == self && !(v != self) && !(v < self) && (v <= self);
    if (!refl) g_self_unequal = true;
    out += refl ? "R" : "r";
  }
  snprintf(b, sizeof b, "#%d%d%d%d%d%d|", (int)(v == 3.25), (int)(v == 1000), (int)(v < 4), (int)(v > -1.5), (int)(v == true), (int)(v == 0));
  out += b;
  snprintf(b, sizeof b, "z%zu d%zu", v.size(), v.nesting());
  out += b;
  if (v.is<JsonArrayConst>()) {
    for (JsonVariantConst e : v.as<JsonArrayConst>()) observe_value(e, out, depth + 1);
  } else if (v.is<JsonObjectConst>()) {
    JsonObjectConst o = v.as<JsonObjectConst>();
    for (JsonPairConst p : o) {
      JsonString k = p.key();
      std::string ks(k.c_str(), k.size());
      out += "K" + cs::quote_bytes(ks, 60);
      // lookup of this key by every kind (zero-terminated kinds only when the key has no NUL)
      bool nul = ks.find('\0') != std::string::npos;
      JsonVariantConst byStd = o[ks], byJs = o[JsonString(ks.data(), ks.size(), JsonString::Copied)], bySv = o[std::string_view(ks)];
      std::string t1, t2, t3;
      serializeJson(byStd, t1);
      serializeJson(byJs, t2);
      serializeJson(bySv, t3);
      out += "L" + t1 + "|" + t2 + "|" + t3;
      if (!nul) {
        std::string t4, t5;
        serializeJson(o[ks.c_str()], t4);
        std::string tmp = ks;
        serializeJson(o[const_cast<char*>(tmp.c_str())], t5);
        out += "|" + t4 + "|" + t5;
#if ARDUINOJSON_ENABLE_ARDUINO_STRING
        ::String as(ks.c_str());
        std::string t6;
        serializeJson(o[as], t6);
        out += "|" + t6;
#endif
#if ARDUINOJSON_ENABLE_PROGMEM
        std::string t7;
        serializeJson(o[reinterpret_cast<const __FlashStringHelper*>(ks.c_str() + 42)], t7);
        out += "|" + t7;
#endif
      }
      // absent keys: a prefix and an extension of the key
      out += o[ks + "x"].isNull() ? "" : "!ext-found";
      if (!ks.empty()) out += o[ks.substr(0, ks.size() - 1)].isUnbound() && !o[ks.substr(0, ks.size() - 1)].isNull() ? "!" : "";
      observe_value(p.value(), out, depth + 1);
    }
  }
  out += "}";
}

static std::string observable_vector(JsonDocument& doc) {
  std::string out, t;
  JsonVariantConst v = doc.as<JsonVariantConst>();
  serializeJson(v, t);
  out += "J:" + t;
  t.clear();
  serializeJsonPretty(v, t);
  out += "\nP:" + t;
  t.clear();
  serializeMsgPack(v, t);
  out += "\nM:" + cs::hex_bytes(t, 100000);
  out += "\nO:";
  observe_value(v, out);
  return out;
}

// very many users of one copied string: sharing stays invisible whatever the number of sharers
// (counts of 2^8 and 2^16 users are where a narrow counter would wrap)
static void many_sharers(cs::Src& s, cs::Ctx& ctx) {
  static const size_t N[] = {254, 255, 256, 257, 258, 65534, 65535, 65536, 65537, 65538};
  size_t n = N[s.below(10)];
  if (n >= (size_t)ArduinoJson::detail::NULL_SLOT) n = (size_t)ArduinoJson::detail::NULL_SLOT - 2;  // slot ids of this geometry
  std::string text = s.coin() ? "shared text" : std::string("sh\0ared", 8);
  lib::Ledger ledger;
  {
    JsonDocument doc(&ledger);
    JsonArray a = doc.to<JsonArray>();
    for (size_t i = 0; i < n; i++)
      if (!a.add(text)) ctx.fail("many-sharers", "add() of user " + std::to_string(i) + " failed");
    ctx.current_rendering = "many sharers: " + std::to_string(n) + " users of " + cs::quote_bytes(text);
    // one user goes away / is overwritten / is re-assigned the same text
    size_t k = (size_t)s.below(3);
    if (k == 0) a.remove((size_t)0);
    else if (k == 1) a[0] = 42;
    else a[0] = text;
    size_t expect_users = k == 2 ? n : n - 1;
    size_t seen = 0;
    for (JsonVariantConst e : a) {
      if (!e.is<JsonString>()) continue;
      JsonString js = e.as<JsonString>();
      if (std::string(js.c_str(), js.size()) != text) ctx.fail("sharing-visible", "after one of " + std::to_string(n) + " users of a string changed, another user reads " + cs::quote_bytes(std::string(js.c_str(), js.size())));
      seen++;
    }
    if (seen != expect_users) ctx.fail("sharing-visible", "users left: " + std::to_string(seen) + ", expected " + std::to_string(expect_users));
    // the others can still be changed one by one and the last one releases the text
    a.remove((size_t)1);
    a.add(std::string("another"));
    std::string out;
    serializeMsgPack(doc, out);
    lib::Inspector::Report rep = lib::Inspector::inspect(doc, false, false, true);
    if (!rep.error.empty()) ctx.fail("internal-invariant", "many sharers: " + rep.error);
    doc.clear();
    if (ledger.live_blocks() != 0) ctx.fail("leak-after-clear", "many sharers: blocks live after clear()");
  }
  if (!ledger.error.empty()) ctx.fail("allocator-discipline", ledger.error);
  ctx.executions += n;
  ctx.label("many-sharers-of-one-string");
  ctx.nontrivial(cs::hash_u64(n, cs::hash_str(text)));
}

static void run_case(cs::Src& s, cs::Ctx& ctx) {
  ctx.evaluations++;
  if (s.below(600) == 1) {
    many_sharers(s, ctx);
    return;
  }
  hist::Options o = base_options(ctx);
  o.ndocs = 2;
  o.string_ops_only = true;
  o.doc_level_ops = s.chance(1, 3);
  std::vector<int> policies = {-1, hist::SK_STD, hist::SK_VIEW, hist::SK_JSTR_COPIED, hist::SK_LINKED, hist::SK_CHARPTR, hist::SK_JSTR_LINKED, hist::SK_CHARARR};
#if ARDUINOJSON_ENABLE_ARDUINO_STRING
  policies.push_back(hist::SK_ARDUINO_STRING);
#endif
#if ARDUINOJSON_ENABLE_PROGMEM
  policies.push_back(hist::SK_FLASH);
#endif
  hist::Runner r(s, ctx, o);
  r.init(policies);
  size_t nops = 10 + (size_t)s.below(50);
  size_t compared = 0;
  for (size_t i = 0; i < nops; i++) {
    r.step();  // compares every world with the model (documents, live references, invariants)
    // full observable vector: identical across the worlds
    if (i % 3 == 2 || i + 1 == nops) {
      for (size_t d = 0; d < o.ndocs; d++) {
        std::string first;
        for (size_t wi = 0; wi < r.worlds.size(); wi++) {
          std::string vec = observable_vector(*r.worlds[wi]->docs[d]);
          if (g_self_unequal) {
            g_self_unequal = false;
            ctx.current_rendering = r.log;
            ctx.fail("string-not-equal-to-itself", "a string value does not compare equal to itself (variant against variant) in d" + std::to_string(d));
          }
          if (wi == 0) first = vec;
          else if (vec != first) {
            // locate the first difference for the report
            size_t k = 0;
            while (k < vec.size() && k < first.size() && vec[k] == first[k]) k++;
            ctx.current_rendering = r.log;
            ctx.fail("storage-observable", "document d" + std::to_string(d) + " observed differently when strings are given as " +
                                               hist::strkind_name(r.worlds[wi]->policy) + " than as generated kinds, at offset " + std::to_string(k) + ":\n  ..." +
                                               vec.substr(k > 60 ? k - 60 : 0, 160) + "\n  ..." + first.substr(k > 60 ? k - 60 : 0, 160));
          }
        }
        compared++;
      }
    }
  }
  r.finish();
  ctx.executions += r.st.ops * policies.size();
  ctx.current_rendering = r.log;
  // non-trivial: equal texts coexist (sharing) and one user was removed or overwritten, and the
  // observable vector (numeric accessors, lookups) was compared
  bool nontrivial = compared > 0 && r.st.ops >= 10 && (r.st.shared_string_removed > 0 || r.st.removals > 0 || r.st.copies > 0);
  if (nontrivial) ctx.nontrivial_str(r.log);
  else ctx.trivial++;
  if (r.st.shared_string_removed) ctx.label("shared-text-user-removed");
  ctx.label("vectors-compared", compared);
  ctx.label("worlds", policies.size());
  if (ctx.want_sample() && r.st.ops < 30) ctx.sample(r.log);
}

static void witness(const std::string& name, cs::Ctx& ctx) {
  if (name == "doc_set_char_array") {
    JsonDocument doc;
    {
      char buf[32];
      strcpy(buf, "volatile text");
      doc.set(buf);
      memset(buf, '#', sizeof buf - 1);
    }
    if (doc.as<std::string>() != "volatile text") ctx.fail("copy-not-independent", "doc.set(char[]) stored " + cs::quote_bytes(doc.as<std::string>()));
    if (doc.as<JsonString>().isLinked()) ctx.fail("copy-not-independent", "doc.set(char[]) stored the buffer by address");
    return;
  }
  if (name == "doc_assign_char_array") {
    JsonDocument doc;
    {
      char buf[32];
      strcpy(buf, "volatile text");
      doc = buf;
      memset(buf, '#', sizeof buf - 1);
    }
    if (doc.as<std::string>() != "volatile text") ctx.fail("copy-not-independent", "doc = char[] stored " + cs::quote_bytes(doc.as<std::string>()));
    if (doc.as<JsonString>().isLinked()) ctx.fail("copy-not-independent", "doc = char[] stored the buffer by address");
    return;
  }
  if (name == "linked_string_as_double") {
    char* p = static_cast<char*>(malloc(5));
    memcpy(p, "3.25", 5);
    JsonDocument a, b;
    a.set(static_cast<const char*>(p));
    b.set(std::string("3.25"));
    double da = a.as<double>(), db = b.as<double>();
    free(p);
    if (da != db) ctx.fail("storage-observable", "as<double>() differs between linked and copied \"3.25\"");
    return;
  }
  ctx.fail("witness", "unknown witness " + name);
}

static cs::PropDef PROP = {"C14", run_case, nullptr, witness};
CS_MAIN(PROP)
