// C06 — every block comes from and returns to the user's allocator exactly once.
#include "history_case.hpp"

#include "../gen/json_text.hpp"
#include "../lib/sources.hpp"
#include "../ref/msgpack_ref.hpp"

struct SrcWidths : mref::Widths {
  cs::Src* s;
  uint64_t choose(uint64_t n) override { return s->below(3) ? 0 : s->below(n); }
};

// ---------------------------------------------------------------- (A) histories on distinct ledgers
static void ledger_history(cs::Src& s, cs::Ctx& ctx) {
  hist::Options o = base_options(ctx);
  o.ndocs = 2 + (size_t)s.below(2);  // distinct ledgers, so that swap/move/assign must carry the allocator along
  hist::Runner r(s, ctx, o);
  r.init();
  size_t nops = 20 + (size_t)s.below(s.coin() ? 60 : 200);
  for (size_t i = 0; i < nops; i++) r.step();
  unsigned pool_requests = 0;
  for (auto& w : r.worlds) pool_requests += w->pool_requests;
  r.finish();  // clear() and destruction: zero live blocks in every ledger, no foreign/double release
  ctx.executions += r.st.ops;
  ctx.current_rendering = r.log;
  bool nontrivial = r.st.shared_string_removed > 0 || r.st.cross_ledger_moves > 0;
  if (nontrivial) ctx.nontrivial_str(r.log);
  else ctx.trivial++;
  if (r.st.shared_string_removed) ctx.label("shared-string-user-removed");
  if (r.st.cross_ledger_moves) ctx.label("document-moved-between-ledgers");
  if (pool_requests) ctx.label("pool-requests-watched", pool_requests);
  if (r.st.inserts_after_removal) ctx.label("insert-after-removal");
  if (ctx.want_sample() && r.st.ops < 40 && nontrivial) ctx.sample(r.log);
}

// ---------------------------------------------------------------- (B) memory requested by the deserializers
static void mutate(cs::Src& s, std::string& t, bool msgpack, bool* declared_huge) {
  size_t n = 1 + (size_t)s.below(3);
  for (size_t i = 0; i < n; i++) {
    size_t pos = t.empty() ? 0 : (size_t)s.below(t.size());
    switch (s.below(5)) {
      case 0:
        if (!t.empty()) t.erase(pos, 1 + (size_t)s.below(4));
        break;
      case 1: t.insert(pos, 1, (char)s.below(256)); break;
      case 2: t.resize(pos); break;
      default: {
        static const char* H[] = {"\xDB\xFF\xFF\xFF\xFF", "\xDD\xFF\xFF\xFF\xFF", "\xDF\x7F\xFF\xFF\xFF", "\xC6\xFF\xFF\xFF\xF0", "\xC9\xFF\xFF\xFF\xFF",
                                  "\xDA\xFF\xFF",         "\xDC\xFF\xFF",         "\xC5\xFF\xFF",         "\xD9\xFF",             "\xDE\xFF\xFF",
                                  "\xDB\x00\x00\xFF\xFF", "\xDB\x00\x01\x00\x00", "\xC6\x00\x00\xFF\xFA", "\xC8\xFF\xFF\x01"};
        if (msgpack) {
          t.insert(pos, H[s.below(14)]);
          *declared_huge = true;
        } else {
          t.insert(pos, std::string((size_t)s.below(3000), s.coin() ? '[' : '"'));
        }
      }
    }
  }
}

static void memory_bound(cs::Src& s, cs::Ctx& ctx) {
  bool msgpack = s.coin();
  gen::Opts o;
  o.utf8_only = true;
  o.long_strings = s.chance(1, 4);
  o.max_depth = (size_t)s.range(1, 6);
  o.nonfinite = msgpack;
  Val v = gen::gen_value(s, o);
  std::string bytes;
  if (msgpack) {
    SrcWidths w;
    w.s = &s;
    mref::EncStats st;
    mref::encode(v, bytes, w, st);
  } else {
    std::function<void(Val&)> fin = [&](Val& n) {
      if (n.k == Val::Flt && !std::isfinite(n.d)) n.d = 1.25;
      for (auto& e : n.a) fin(e);
      for (auto& kv : n.o) fin(kv.second);
    };
    fin(v);
    gen::Spell sp;
    bytes = gen::spell_document(s, sp, v);
  }
  bool declared_huge = false;
  if (s.chance(1, 2)) mutate(s, bytes, msgpack, &declared_huge);
  if (s.chance(1, 10)) {  // a very long string: builder regrowth up to the maximum
    size_t len = (size_t)s.below(70000);
    if (msgpack) {
      bytes = "\x91\xDB";
      mref::be(bytes, len, 4);
      bytes += std::string(len, 'z');
    } else {
      bytes = "[\"" + std::string(len, 'z') + "\"]";
    }
  }
  ctx.current_rendering = std::string(msgpack ? "msgpack " : "json ") + std::to_string(bytes.size()) + " bytes: " +
                          (msgpack ? cs::hex_bytes(bytes, 300) : cs::quote_bytes(bytes, 600));
  size_t maxlen = (size_t)ArduinoJson::detail::StringNode::maxLength;
  if (maxlen > (1u << 24)) {
    ctx.label("memory-bound-not-applicable(4-byte string length)");
    return;
  }
  lib::Ledger ledger;
  {
    JsonDocument doc(&ledger);
    lib::CountingReader reader(bytes);
    DeserializationError err = msgpack ? deserializeMsgPack(doc, reader, DeserializationOption::NestingLimit(200))
                                       : deserializeJson(doc, reader, DeserializationOption::NestingLimit(200));
    ctx.executions++;
    size_t consumed = reader.pos;
    size_t pool_bytes = (size_t)ARDUINOJSON_POOL_CAPACITY * lib::Inspector::slot_size();
    size_t bound = 3 * ArduinoJson::detail::sizeofString(maxlen) + 2 * pool_bytes + 1024 + 64 * consumed;
    if (ledger.peak_bytes > bound)
      ctx.fail("memory-not-bounded", "peak " + std::to_string(ledger.peak_bytes) + " bytes requested for " + std::to_string(consumed) +
                                         " consumed bytes (bound " + std::to_string(bound) + "), code " + err.c_str());
    if (!ledger.error.empty()) ctx.fail("allocator-discipline", ledger.error);
    ctx.label(std::string("code-") + err.c_str());
    doc.clear();
    if (ledger.live_blocks() != 0) ctx.fail("leak-after-clear", "deserialization left blocks after clear()");
  }
  if (ledger.live_blocks() != 0 || !ledger.error.empty()) ctx.fail("leak-after-destruction", "ledger not empty / " + ledger.error);
  if (declared_huge) ctx.nontrivial_str(bytes);
  else ctx.trivial++;
  if (declared_huge) ctx.label("declared-length-exceeds-input");
}

static void run_case(cs::Src& s, cs::Ctx& ctx) {
  ctx.evaluations++;
  if (s.chance(1, 3)) memory_bound(s, ctx);
  else ledger_history(s, ctx);
}

static void witness(const std::string& name, cs::Ctx& ctx) { ctx.fail("witness", "unknown witness " + name); }

static cs::PropDef PROP = {"C06", run_case, nullptr, witness};
CS_MAIN(PROP)
