// C11 — filtering equals projecting the unfiltered result.
#include <ArduinoJson.h>

#include "../engine/runner.hpp"
#include "../gen/json_text.hpp"
#include "../gen/values.hpp"
#include "../lib/build.hpp"
#include "../lib/ledger.hpp"
#include "../lib/observe.hpp"
#include "../lib/sources.hpp"
#include "../ref/filter_ref.hpp"
#include "../ref/json_ref.hpp"
#include "../ref/msgpack_ref.hpp"

using namespace ArduinoJson;
using ref::Val;

struct SrcWidths : mref::Widths {
  cs::Src* s;
  uint64_t choose(uint64_t n) override { return s->below(4) ? 0 : s->below(n); }
};

struct Run {
  int code = 0;
  Val obs;
  size_t consumed = 0;
  size_t peak = 0, cumulative = 0;
  std::string log;
  bool observed = false;
};

enum FilterMode { F_NONE, F_TRUE, F_DOC, F_VARIANT };

static Run execute(cs::Ctx& ctx, bool msgpack, const std::string& bytes, FilterMode fm, JsonDocument* filter, int limit) {
  Run r;
  lib::Ledger ledger;
  ledger.logging = true;
  {
    JsonDocument doc(&ledger);
    lib::CountingReader reader(bytes);
    DeserializationError err;
    auto nl = DeserializationOption::NestingLimit((uint8_t)limit);
    JsonDocument truedoc;
    truedoc.set(true);
    switch (fm) {
      case F_NONE:
        err = msgpack ? deserializeMsgPack(doc, reader, nl) : deserializeJson(doc, reader, nl);
        break;
      case F_TRUE:
        err = msgpack ? deserializeMsgPack(doc, reader, DeserializationOption::Filter(truedoc), nl)
                      : deserializeJson(doc, reader, DeserializationOption::Filter(truedoc), nl);
        break;
      case F_DOC:
        err = msgpack ? deserializeMsgPack(doc, reader, DeserializationOption::Filter(*filter), nl)
                      : deserializeJson(doc, reader, DeserializationOption::Filter(*filter), nl);
        break;
      case F_VARIANT: {
        JsonVariantConst fv = filter->as<JsonVariantConst>();
        err = msgpack ? deserializeMsgPack(doc, reader, nl, DeserializationOption::Filter(fv))
                      : deserializeJson(doc, reader, nl, DeserializationOption::Filter(fv));
        break;
      }
    }
    ctx.executions++;
    r.code = (int)err.code();
    r.consumed = reader.pos;
    r.peak = ledger.peak_bytes;
    r.cumulative = ledger.cumulative_bytes;
    r.log = ledger.log;
    if (!ledger.error.empty()) ctx.fail("allocator-discipline", ledger.error);
    // whatever the code, the document must be traversable
    lib::ObserveOpts oo;
    oo.cross_checks = false;
    r.obs = lib::observe(doc.as<JsonVariantConst>(), oo);
    r.observed = true;
  }
  if (ledger.live_blocks() != 0) ctx.fail("leak", "blocks still live after the document was destroyed");
  return r;
}

// a filter related to the shape of v
static Val derive_filter(cs::Src& s, const Val& v, int depth) {
  if (depth > 60) return Val::boolean(true);  // byte-driven generation could otherwise nest "*" without end
  static const unsigned w[] = {4, 2, 1, 8, 2};
  static const unsigned wtop[] = {1, 1, 1, 14, 3};
  switch (depth == 0 ? s.pick(wtop) : s.pick(w)) {
    case 0: return Val::boolean(true);
    case 1: return s.coin() ? Val::boolean(false) : Val::null();
    case 2: {  // scalar / empty-container filters
      static const unsigned ws[] = {2, 2, 2, 2, 1};
      switch (s.pick(ws)) {
        case 0: return Val::uint(s.coin() ? 0 : 5);
        case 1: return Val::str(s.coin() ? "" : "x");
        case 2: return Val::arr();
        case 3: return Val::obj();
        default: return Val::flt(0.5);
      }
    }
    case 3: {  // same shape
      if (v.k == Val::Arr) {
        Val f = Val::arr();
        size_t n = (size_t)s.below(3);  // 0,1,2 element filters
        for (size_t i = 0; i < n; i++) {
          const Val* model = v.a.empty() ? &v : &v.a[s.below(v.a.size())];
          f.a.push_back(depth > 6 ? Val::boolean(true) : derive_filter(s, *model, depth + 1));
        }
        return f;
      }
      if (v.k == Val::Obj) {
        Val f = Val::obj();
        for (auto& kv : v.o) {
          if (s.chance(1, 3)) continue;  // not listed
          if (f.find(kv.first)) continue;
          f.o.push_back({kv.first, depth > 6 ? Val::boolean(true) : derive_filter(s, kv.second, depth + 1)});
        }
        if (s.chance(1, 3) && !f.find("*")) {
          const Val* model = v.o.empty() ? &v : &v.o[s.below(v.o.size())].second;
          f.o.push_back({"*", derive_filter(s, *model, depth + 1)});
        }
        if (s.chance(1, 5) && !f.find("zz")) f.o.push_back({"zz", Val::boolean(true)});  // key absent from the input
        return f;
      }
      return Val::boolean(s.coin());
    }
    default: {  // deliberately mismatched shape
      if (v.k == Val::Arr) {
        Val f = Val::obj();
        f.o.push_back({s.coin() ? "*" : "a", Val::boolean(true)});
        return f;
      }
      Val f = Val::arr();
      f.a.push_back(Val::boolean(true));
      return f;
    }
  }
}

static void mutate(cs::Src& s, std::string& t) {
  size_t n = 1 + (size_t)s.below(3);
  for (size_t i = 0; i < n; i++) {
    size_t pos = t.empty() ? 0 : (size_t)s.below(t.size());
    switch (s.below(4)) {
      case 0:
        if (!t.empty()) t.erase(pos, 1);
        break;
      case 1: t.insert(pos, 1, (char)s.below(256)); break;
      case 2:
        if (!t.empty()) t[pos] = (char)s.below(256);
        break;
      default: t.resize(pos);
    }
  }
}

static void check_pair(cs::Ctx& ctx, cs::Src* s, bool msgpack, const std::string& bytes, const Val& f_generated, int limit, bool filter_as_variant,
                       bool input_has_zone) {
  JsonDocument fdoc;
  {
    lib::Arena arena;
    cs::Src fixed;
    fixed.init_replay({});
    if (!lib::build(fdoc.to<JsonVariant>(), f_generated, s ? *s : fixed, arena)) ctx.fail("build", "filter document could not be built");
    // the arena holds linked strings: copy the document so that it owns everything
    JsonDocument copy;
    std::string tmp;
    serializeMsgPack(fdoc, tmp);
    DeserializationError ce = deserializeMsgPack(copy, tmp.data(), tmp.size(), DeserializationOption::NestingLimit(255));
    if (ce) ctx.fail("harness", std::string("the filter document could not be copied: ") + ce.c_str());
    fdoc = copy;
  }
  // the filter as the document holds it (a tiny double is 0 when JsonFloat is float): the reference
  // projects with exactly what the library is given
  Val f;
  {
    lib::ObserveOpts fo;
    fo.cross_checks = false;
    f = lib::observe(fdoc.as<JsonVariantConst>(), fo);
  }
  Run u = execute(ctx, msgpack, bytes, F_NONE, nullptr, limit);
  Run t = execute(ctx, msgpack, bytes, F_TRUE, nullptr, limit);
  // ---- the filter `true` is the identity on every input, malformed ones included
  {
    std::string why;
    if (t.code != u.code) ctx.fail("true-not-identity", "Filter(true) returned code " + std::to_string(t.code) + ", unfiltered " + std::to_string(u.code));
    if (!ref::same(u.obs, t.obs, ref::num_exact, &why)) ctx.fail("true-not-identity", "Filter(true) document differs: " + why);
    if (t.log != u.log) ctx.fail("true-not-identity", "Filter(true) allocator call log differs:\n  " + t.log.substr(0, 300) + "\n  " + u.log.substr(0, 300));
    if (t.consumed != u.consumed) ctx.fail("true-not-identity", "Filter(true) consumed a different number of bytes");
  }
  Run fr = execute(ctx, msgpack, bytes, filter_as_variant ? F_VARIANT : F_DOC, &fdoc, limit);
  const char* fz = fref::filter_zone(f);
  // ---- projection
  if (u.code == DeserializationError::Ok) {
    if (fz) {
      ctx.unspecified(fz);
    } else if (input_has_zone || ref::has_duplicate_keys(u.obs) || [&] {
                 bool nul = false;
                 u.obs.walk([&](const Val& n) {
                   if (n.k == Val::Obj)
                     for (auto& kv : n.o)
                       if (kv.first.find('\0') != std::string::npos) nul = true;
                 });
                 return nul;
               }()) {
      ctx.unspecified("input-duplicate-or-nul-key");
    } else {
      if (fr.code != DeserializationError::Ok)
        ctx.fail("filtered-rejected", "unfiltered run is Ok but the filtered run returned code " + std::to_string(fr.code));
      Val want = fref::project(u.obs, &f);
      std::string why;
      if (!ref::same(want, fr.obs, ref::num_exact, &why))
        ctx.fail("not-the-projection", "filtered result differs from the projection: " + why + "\n   projection: " + ref::render(want, 600) +
                                           "\n   filtered:   " + ref::render(fr.obs, 600));
      ctx.label("projection-judged");
      if (!ref::same(want, u.obs, ref::num_exact) && want.k != Val::Null && !(want.is_container() && want.nodes() == 1))
        ctx.label("projection-proper");
    }
  } else {
    ctx.label("unfiltered-not-ok");
  }
  // ---- memory: on the same consumed prefix filtering never requests more
  if (fr.consumed <= u.consumed) {
    // peak live bytes are compared; the running total of requested bytes is not: the scratch buffer
    // of a discarded key may have to be re-grown for the next key, which the unfiltered run avoids by
    // consuming the buffer (see DESIGN.md §8)
    if (fr.peak > u.peak)
      ctx.fail("filter-uses-more-memory", "filtered run requested more memory: peak " + std::to_string(fr.peak) + " vs " + std::to_string(u.peak) +
                                              ", cumulative " + std::to_string(fr.cumulative) + " vs " + std::to_string(u.cumulative));
    if (fr.cumulative > u.cumulative) ctx.label("cumulative-bytes-higher-with-filter(not judged)");
    ctx.label("memory-judged");
  } else {
    ctx.unspecified("filtered-run-parsed-further");
  }
}

static void run_case(cs::Src& s, cs::Ctx& ctx) {
  ctx.evaluations++;
  bool msgpack = s.coin();
  gen::Opts o;
  o.utf8_only = true;
  o.nul = false;
  o.dup_keys = s.chance(1, 12);
  o.top_container = s.chance(5, 6);
  o.max_depth = (size_t)s.range(1, 5);
  o.long_strings = s.chance(1, 3);
  if (s.chance(1, 8)) {  // containers with 8..40 children (fix / 16-bit count families)
    o.max_children = 40;
    o.node_budget = 80;
    o.max_depth = 2;
  }
  Val v = gen::gen_value(s, o);
  if (s.chance(1, 12)) {
    // a long string (or bin) early in the input followed by many small values: what a filter discards
    // must not stay allocated while the rest is parsed
    static const size_t L[] = {32, 64, 96, 128, 300, 1000, 2100, 5000};
    size_t n = L[s.below(8)];
    Val big = Val::str(std::string(n, (char)('a' + s.below(26))));
    Val tail = Val::arr();
    size_t k = 20 + (size_t)s.below(400);
    for (size_t i = 0; i < k; i++) tail.a.push_back(Val::uint(i));
    Val w2 = s.coin() ? Val::arr() : Val::obj();
    if (w2.k == Val::Arr) {
      w2.a.push_back(big);
      w2.a.push_back(tail);
      if (s.coin()) w2.a.push_back(v);
    } else {
      w2.o.push_back({"big", big});
      w2.o.push_back({"tail", tail});
      w2.o.push_back({"a", v});
    }
    v = w2;
  }
  bool zone_in = ref::has_duplicate_keys(v);
  std::string bytes;
  if (msgpack) {
    SrcWidths w;
    w.s = &s;
    mref::EncStats st;
    mref::encode(v, bytes, w, st);
  } else {
    gen::Spell sp;
    sp.strict = s.coin();
    sp.comments = ARDUINOJSON_ENABLE_COMMENTS;  // comments inside discarded parts have to be skipped too
    bytes = gen::spell_document(s, sp, v);
  }
  Val f = s.chance(5, 6) ? derive_filter(s, v, 0) : gen::gen_value(s, o);
  if (s.chance(1, 10)) {  // keep nested arrays / the tail only
    Val inner = Val::arr();
    inner.a.push_back(Val::boolean(true));
    if (v.k == Val::Arr) {
      f = Val::arr();
      f.a.push_back(inner);
    } else {
      f = Val::obj();
      f.o.push_back({"tail", s.coin() ? Val::boolean(true) : inner});
      if (s.coin()) f.o.push_back({"big", Val::arr()});
    }
  }
  bool malformed = s.chance(1, 5);
  if (malformed) mutate(s, bytes);
  int limit = s.chance(1, 8) ? (int)s.below(4) : 10;
  ctx.current_rendering = std::string(msgpack ? "msgpack input: " + cs::hex_bytes(bytes, 600) : "json input: " + cs::quote_bytes(bytes, 1200)) +
                          "\nfilter: " + ref::render(f) + "\nlimit: " + std::to_string(limit);
  check_pair(ctx, &s, msgpack, bytes, f, limit, s.coin(), zone_in);
  ctx.label(msgpack ? "msgpack" : "json");
  if (malformed) ctx.label("malformed-input");
  bool shapes_mismatch = (v.k == Val::Arr && f.k == Val::Obj) || (v.k == Val::Obj && f.k == Val::Arr);
  if (shapes_mismatch) ctx.label("shape-mismatch");
  ctx.nontrivial_str(bytes + "|" + ref::render(f, 2000));
  if (ctx.want_sample() && bytes.size() < 120 && !msgpack) ctx.sample(cs::quote_bytes(bytes) + "  filter " + ref::render(f, 200));
}

static void witness(const std::string& name, cs::Ctx& ctx) {
  if (name == "msgpack_wildcard_over_array") {
    Val f = Val::obj();
    f.o.push_back({"*", Val::boolean(true)});
    check_pair(ctx, nullptr, true, std::string("\x91\x01", 2), f, 10, false, false);
    check_pair(ctx, nullptr, true, std::string("\x81\xA1\x61\x92\x01\x02", 6), f, 10, true, false);
    Val g = Val::obj();
    Val inner = Val::obj();
    inner.o.push_back({"*", Val::uint(5)});
    g.o.push_back({"a", inner});
    check_pair(ctx, nullptr, true, std::string("\x81\xA1\x61\x92\x01\x02", 6), g, 10, true, false);
    return;
  }
  ctx.fail("witness", "unknown witness " + name);
}

static cs::PropDef PROP = {"C11", run_case, nullptr, witness};
CS_MAIN(PROP)
