// C10 — deserializeJson accepts exactly the documented dialect and classifies the rest.
#include <ArduinoJson.h>

#include "../engine/runner.hpp"
#include "../gen/json_text.hpp"
#include "../gen/values.hpp"
#include "../lib/observe.hpp"
#include "../lib/sources.hpp"
#include "../ref/json_ref.hpp"
#include "known.hpp"

using namespace ArduinoJson;
using ref::Val;

static jref::Dialect build_dialect() {
  jref::Dialect d;
  d.comments = ARDUINOJSON_ENABLE_COMMENTS;
  d.nan = ARDUINOJSON_ENABLE_NAN;
  d.inf = ARDUINOJSON_ENABLE_INFINITY;
  d.unicode = ARDUINOJSON_DECODE_UNICODE;
  return d;
}

static int code_of(DeserializationError e) {
  switch (e.code()) {
    case DeserializationError::Ok: return jref::OK;
    case DeserializationError::EmptyInput: return jref::EMPTY;
    case DeserializationError::IncompleteInput: return jref::INCOMPLETE;
    case DeserializationError::InvalidInput: return jref::INVALID;
    case DeserializationError::NoMemory: return jref::NOMEM;
    case DeserializationError::TooDeep: return jref::TOODEEP;
  }
  return -1;
}

// dialect values: integers exact, floats within 1e-6 relative of the reference (strtod) value
static bool num_c10(const Val& w, const Val& g) {
  if (w.k == Val::Int) return g.k == Val::Int && w.neg == g.neg && w.mag == g.mag;
  if (g.k != Val::Flt) return false;
  if (std::isnan(w.d)) return std::isnan(g.d);
  // a digit literal that strtod rounds to infinity lies within half an ulp of DBL_MAX or beyond: the
  // largest finite values are as acceptable as infinity there (C12 judges that window); the keyword
  // Infinity (no literal attached) must give infinity
  if (std::isinf(w.d)) return g.d == w.d || (!w.s.empty() && (g.d < 0) == (w.d < 0) && fabs(g.d) > 1e300);
  long double ax = fabsl((long double)w.d);
  if (ax == 0) return g.d == 0;
  if (ax < 1e-300L || ax > 1e300L) return true;
  return fabsl((long double)w.d - (long double)g.d) <= 1e-6L * ax;
}

struct Verdict {
  bool nontrivial_ok = false;  // reached beyond the first token and was judged
  int code = 0;
};

// the deciding comparison; returns the library code
static int check_input(cs::Ctx& ctx, const std::string& bytes, int limit, bool render) {
  jref::Result r = jref::parse(bytes, build_dialect(), limit, 65535);
  JsonDocument doc;
  DeserializationError err =
      deserializeJson(doc, bytes.data(), bytes.size(), DeserializationOption::NestingLimit((uint8_t)limit));
  ctx.executions++;
  int code = code_of(err);
  auto describe = [&]() {
    return "input " + cs::quote_bytes(bytes, 300) + " limit " + std::to_string(limit) + ": library " +
           jref::code_name(code) + ", reference allows " + jref::mask_names(r.allowed) +
           (r.unspecified ? " (zone " + r.zone + ")" : "");
  };
  if (render) ctx.current_rendering = "input: " + cs::quote_bytes(bytes, 2000) + "\nlimit: " + std::to_string(limit);
  if (code < 0) ctx.fail("unknown-code", describe());
  if (r.unspecified) ctx.unspecified(r.zone);
  if (!(r.allowed & (1u << code))) {
    if (code == jref::OK)
      ctx.fail("accepted-outside-dialect", describe());
    else if (r.allowed & jref::bit(jref::OK))
      ctx.fail("rejected-inside-dialect", describe());
    else
      ctx.fail("misclassified", describe());
  }
  if (code == jref::OK && r.value_known) {
    Val got = lib::observe(doc.as<JsonVariantConst>());
    std::string why;
    if (!ref::same(r.value, got, num_c10, &why)) ctx.fail("wrong-value", describe() + " value differs: " + why);
    if (doc.nesting() > (size_t)limit) ctx.fail("nesting", describe() + " nesting() above the limit");
  }
  return code;
}

// ------------------------------------------------------------------ token alphabet
static const struct {
  const char* text;
  size_t len;
} TOK[] = {
    {"[", 1},      {"]", 1},     {"{", 1},      {"}", 1},        {",", 1},         {":", 1},     {"\"a\"", 3},
    {"\"b\"", 3},  {"'c'", 3},   {"k", 1},      {"1", 1},        {"-2.5e3", 6},    {"true", 4},  {"false", 5},
    {"null", 4},   {" ", 1},     {"\n", 1},     {"/*c*/", 5},    {"//c\n", 4},     {"NaN", 3},   {"Infinity", 8},
    {"-", 1},      {"\"", 1},    {"\"\\u00", 5}, {"%", 1},        {"\0", 1},
};
static const size_t NTOK = sizeof TOK / sizeof TOK[0];

static void sweep(cs::Ctx& ctx, uint64_t shard, uint64_t nshards) {
  size_t maxlen = (size_t)ctx.param_u("toklen", 5);
  size_t small_limits_len = (size_t)ctx.param_u("toklen_limits", 4);
  uint64_t index = 0;
  std::vector<size_t> seq;
  std::string bytes;
  for (size_t len = 0; len <= maxlen; len++) {
    seq.assign(len, 0);
    for (;;) {
      if (index++ % nshards == shard) {
        bytes.clear();
        for (size_t t : seq) bytes.append(TOK[t].text, TOK[t].len);
        ctx.evaluations++;
        ctx.current_rendering.clear();
        int code;
        try {
          code = check_input(ctx, bytes, 10, false);
          if (len <= small_limits_len) {
            check_input(ctx, bytes, 0, false);
            check_input(ctx, bytes, 1, false);
            check_input(ctx, bytes, 2, false);
          }
        } catch (cs::Failure& f) {
          ctx.current_rendering = "token sequence input: " + cs::quote_bytes(bytes, 400);
          cs::failing_input() = bytes;
          throw;
        }
        // non-trivial: >= 3 tokens, not EmptyInput, and the parse got past its first token
        bool first_tok_fail = false;
        if (len >= 3 && code != jref::EMPTY) {
          if (code != jref::OK) {
            std::string first(TOK[seq[0]].text, TOK[seq[0]].len);
            jref::Result r1 = jref::parse(first, build_dialect(), 10, 65535);
            first_tok_fail = r1.allowed == jref::bit(jref::INVALID);
          }
          if (!first_tok_fail) ctx.counted_nontrivial++;
          else ctx.trivial++;
        } else {
          ctx.trivial++;
        }
        ctx.label(std::string("code-") + jref::code_name(code));
        if (ctx.want_sample() && len == maxlen && code == jref::OK && (index % 977) == 0) ctx.sample(cs::quote_bytes(bytes));
      }
      // next sequence
      size_t i = len;
      while (i > 0) {
        if (++seq[i - 1] < NTOK) break;
        seq[i - 1] = 0;
        i--;
      }
      if (i == 0) break;
    }
  }
  // ---- every byte value at each hex-digit position of \uXXXX and after a backslash
  static const char* bases[] = {"\"\\u00e9\"", "\"\\uD83D\\uDE00\"", "{\"\\u0041\":1}", "[\"x\\u20ACy\"]"};
  for (const char* base : bases) {
    std::string b = base;
    size_t u = b.find("\\u");
    for (size_t posi = 0; posi < 4; posi++)
      for (int byte = 0; byte < 256; byte++) {
        if (index++ % nshards != shard) continue;
        std::string t = b;
        t[u + 2 + posi] = (char)byte;
        ctx.evaluations++;
        ctx.counted_nontrivial++;
        ctx.current_rendering = "hex position input: " + cs::quote_bytes(t);
        cs::failing_input() = t;
        check_input(ctx, t, 10, false);
        ctx.label("hex-position");
      }
    for (int byte = 0; byte < 256; byte++) {
      if (index++ % nshards != shard) continue;
      std::string t = b;
      t[u + 1] = (char)byte;
      ctx.evaluations++;
      ctx.counted_nontrivial++;
      ctx.current_rendering = "escape char input: " + cs::quote_bytes(t);
      cs::failing_input() = t;
      check_input(ctx, t, 10, false);
      ctx.label("escape-char");
    }
  }
  ctx.current_rendering.clear();
  ctx.exhaustive_done = true;
}

// ------------------------------------------------------------------ random texts and mutations
static void mutate(cs::Src& s, std::string& t) {
  static const char interesting[] = "[]{},:\"'\\/ \n\t0159-+.eEtfnulaNIk_*%\x7f";
  size_t n = 1 + (size_t)s.below(3);
  for (size_t i = 0; i < n; i++) {
    unsigned op = (unsigned)s.below(6);
    size_t pos = t.empty() ? 0 : (size_t)s.below(t.size());
    char c = s.coin() ? interesting[s.below(sizeof interesting - 1)] : (char)s.below(256);
    switch (op) {
      case 0:
        if (!t.empty()) t.erase(pos, 1);
        break;
      case 1: t.insert(pos, 1, c); break;
      case 2:
        if (!t.empty()) t[pos] = c;
        break;
      case 3: t.resize(pos); break;  // truncate
      case 4:
        if (!t.empty()) {
          size_t len = 1 + (size_t)s.below(6);
          t.insert(pos, t.substr(pos, len));
        }
        break;
      default:
        if (!t.empty()) {
          size_t len = 1 + (size_t)s.below(6);
          t.erase(pos, len);
        }
    }
  }
}

static void run_case(cs::Src& s, cs::Ctx& ctx) {
  ctx.evaluations++;
  // raw mode: the input is a byte string (always under libFuzzer; 1 in 12 random cases)
  if (s.below(12) == 1) {
    static const int rl[] = {10, 0, 1, 2, 5, 255};
    int limit = rl[s.below(6)];
    std::string bytes = s.take_bytes(s.mode() == cs::Src::BYTES ? 400 : 24);
    int code = check_input(ctx, bytes, limit, true);
    ctx.label("raw-bytes");
    ctx.label(std::string("code-") + jref::code_name(code));
    if (bytes.size() >= 3) ctx.nontrivial_str(bytes + char(limit));
    return;
  }
  jref::Dialect d = build_dialect();
  gen::Opts o;
  o.utf8_only = !s.chance(1, 4);
  o.nul = d.unicode;  // NUL in a string needs \u0000
  o.dup_keys = true;
  o.max_depth = (size_t)s.range(1, 5);
  o.nonfinite = (d.nan || d.inf) && s.coin();
  Val v = gen::gen_value(s, o);
  // NaN / Inf only when the build reads them back
  std::function<void(Val&)> fix = [&](Val& n) {
    if (n.k == Val::Flt) {
      if (std::isnan(n.d) && !d.nan) n.d = 1.5;
      if (std::isinf(n.d) && !d.inf) n.d = -2.5;
    }
    for (auto& e : n.a) fix(e);
    for (auto& kv : n.o) fix(kv.second);
  };
  fix(v);
  gen::Spell sp;
  sp.strict = false;
  sp.comments = d.comments;
  sp.lenient_numbers = true;
  sp.unicode = d.unicode;
  std::string text;
  {
    // spell with NaN/Infinity spelled canonically
    std::function<void(Val&)> lit = [&](Val& n) {
      if (n.k == Val::Flt) {
        if (std::isnan(n.d)) n.s = "NaN";
        else if (std::isinf(n.d)) n.s = n.d < 0 ? "-Infinity" : "Infinity";
        else if (s.coin()) {
          n.s = gen::gen_float_literal(s, 30);
          n.d = strtod(n.s.c_str(), nullptr);
        }
      }
      for (auto& e : n.a) lit(e);
      for (auto& kv : n.o) lit(kv.second);
    };
    lit(v);
    text = gen::spell_document(s, sp, v);
  }
  if (s.chance(1, 12)) {  // number tokens around the 63-character limit (longer ones are a zone, but must be safe)
    size_t k = 58 + (size_t)s.below(12);
    std::string tok;
    for (size_t j = 0; j < k; j++) tok += (char)('0' + s.below(10));
    if (s.coin()) tok.insert(1 + (size_t)s.below(tok.size() - 1), ".");
    size_t at = text.find_first_of("0123456789");
    text = at == std::string::npos ? "[" + tok + "]" : text.substr(0, at) + tok + text.substr(at);
  }
  static const int limits[] = {10, 10, 10, 0, 1, 2, 3, 5};
  int limit = limits[s.below(8)];
  bool mutated = s.chance(1, 2);
  if (mutated) mutate(s, text);
  if (s.chance(1, 6)) text += s.coin() ? std::string("]") : gen::gen_string(s, o);  // bytes after the value
  int code = check_input(ctx, text, limit, true);
  ctx.label(mutated ? "mutated" : "dialect-text");
  ctx.label(std::string("code-") + jref::code_name(code));
  if (sp.dialect_used) ctx.label("uses-dialect-extension");
  ctx.nontrivial_str(text + char(limit));
  if (ctx.want_sample() && text.size() < 200) ctx.sample(cs::quote_bytes(text));
}

static void witness(const std::string& name, cs::Ctx& ctx) {
  if (name == "hex_colon") {
    check_input(ctx, "\"\\u00:1\"", 10, true);
    check_input(ctx, "\"\\u00`1\"", 10, true);
    return;
  }
  if (name == "exponent_early_exit") {
    check_input(ctx, "[-2.5e311-]", 10, true);
    check_input(ctx, "[1e400.3.2]", 10, true);
    return;
  }
  if (name == "top_number_blank") {
    check_input(ctx, "1 ", 10, true);
    check_input(ctx, "-2.5e3\n", 10, true);
    return;
  }
  ctx.fail("witness", "unknown witness " + name);
}

static void replay_input(const std::string& bytes, cs::Ctx& ctx) {
  for (int limit : {10, 0, 1, 2}) check_input(ctx, bytes, limit, true);
}

static cs::PropDef PROP = {"C10", run_case, sweep, witness, replay_input};
CS_MAIN(PROP)
