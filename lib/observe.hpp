// Observation of a document through the public read API only -> ref::Val,
// with the cheap cross-checks between observables (size vs iteration, [] vs iteration, ...).
#pragma once
#include <ArduinoJson.h>

#include <string>

#include "../ref/value.hpp"

namespace lib {
using ref::Val;
using namespace ArduinoJson;

struct ObserveError {
  std::string what;
};

struct ObserveOpts {
  bool cross_checks = true;  // size()/operator[]/lookup consistency
  size_t max_depth = 600;
};

inline Val observe(JsonVariantConst v, const ObserveOpts& opt = ObserveOpts(), size_t depth = 0) {
  if (depth > opt.max_depth) throw ObserveError{"observation deeper than max_depth (cycle?)"};
  if (v.isUnbound()) {
    if (!v.isNull()) throw ObserveError{"unbound reference is not null"};
    return Val::null();
  }
  if (v.isNull()) {
    if (opt.cross_checks) {
      if (v.is<bool>() || v.is<int>() || v.is<double>() || v.is<const char*>() || v.is<JsonArrayConst>() ||
          v.is<JsonObjectConst>())
        throw ObserveError{"null value reports another type"};
      if (v.size() != 0 || v.nesting() != 0) throw ObserveError{"null value with size/nesting"};
    }
    return Val::null();
  }
  if (v.is<bool>()) {
    if (opt.cross_checks && (v.is<int>() || v.is<double>() || v.is<const char*>()))
      throw ObserveError{"bool value reports another type"};
    return Val::boolean(v.as<bool>());
  }
  if (v.is<JsonArrayConst>()) {
    JsonArrayConst a = v.as<JsonArrayConst>();
    Val r = Val::arr();
    size_t i = 0;
    for (JsonVariantConst e : a) {
      r.a.push_back(observe(e, opt, depth + 1));
      i++;
      if (i > 10000000) throw ObserveError{"array iteration does not end"};
    }
    if (opt.cross_checks) {
      if (a.size() != r.a.size() || v.size() != r.a.size())
        throw ObserveError{"array size() " + std::to_string(a.size()) + " != iteration count " +
                           std::to_string(r.a.size())};
      if (r.a.size() <= 64) {
        for (size_t k = 0; k < r.a.size(); k++) {
          std::string why;
          Val e = observe(a[k], ObserveOpts{false, opt.max_depth}, depth + 1);
          if (!ref::same(r.a[k], e, ref::num_exact, &why))
            throw ObserveError{"operator[](" + std::to_string(k) + ") differs from iteration: " + why};
        }
        if (!a[r.a.size()].isUnbound()) throw ObserveError{"operator[](size()) is bound"};
      }
      if (v.is<JsonObjectConst>() || v.is<const char*>() || v.is<int>())
        throw ObserveError{"array value reports another type"};
    }
    return r;
  }
  if (v.is<JsonObjectConst>()) {
    JsonObjectConst o = v.as<JsonObjectConst>();
    Val r = Val::obj();
    for (JsonPairConst p : o) {
      JsonString k = p.key();
      if (k.isNull()) throw ObserveError{"object member without key"};
      if (k.c_str()[k.size()] != 0) throw ObserveError{"key not NUL-terminated at size()"};
      r.o.push_back({std::string(k.c_str(), k.size()), observe(p.value(), opt, depth + 1)});
      if (r.o.size() > 10000000) throw ObserveError{"object iteration does not end"};
    }
    if (opt.cross_checks) {
      if (o.size() != r.o.size() || v.size() != r.o.size())
        throw ObserveError{"object size() " + std::to_string(o.size()) + " != iteration count " +
                           std::to_string(r.o.size())};
      if (r.o.size() <= 32) {
        for (size_t k = 0; k < r.o.size(); k++) {
          const std::string& key = r.o[k].first;
          const Val* first = r.find(key);
          std::string why;
          Val e = observe(o[JsonString(key.data(), key.size(), JsonString::Copied)],
                          ObserveOpts{false, opt.max_depth}, depth + 1);
          if (!ref::same(*first, e, ref::num_exact, &why))
            throw ObserveError{"lookup of key " + cs::quote_bytes(key) + " differs from first member: " + why};
        }
      }
    }
    return r;
  }
  if (v.is<JsonString>()) {
    JsonString s = v.as<JsonString>();
    if (s.isNull()) throw ObserveError{"is<JsonString>() but as<JsonString>() is null"};
    if (s.c_str()[s.size()] != 0) throw ObserveError{"string not NUL-terminated at size()"};
    if (opt.cross_checks) {
      if (!v.is<const char*>() || v.as<const char*>() != s.c_str())
        throw ObserveError{"as<const char*>() disagrees with as<JsonString>()"};
      if (v.is<int>() || v.is<double>() || v.is<bool>()) throw ObserveError{"string value reports number type"};
    }
    return Val::str(std::string(s.c_str(), s.size()));
  }
  if (v.is<double>()) {
    if (v.is<int64_t>()) {
      int64_t i = v.as<int64_t>();
      if (opt.cross_checks && i >= 0 && (!v.is<uint64_t>() || v.as<uint64_t>() != (uint64_t)i))
        throw ObserveError{"non-negative int64 not readable as uint64"};
      return Val::sint(i);
    }
    if (v.is<uint64_t>()) return Val::uint(v.as<uint64_t>());
    return Val::flt(v.as<double>());
  }
  // everything else is a raw value: its only public observable is its serialization
  std::string out;
  serializeJson(v, out);
  return Val::raw(out);
}

}  // namespace lib
