// Build a document from a reference value through the public mutation API, with generated
// choices of C++ scalar type and string source kind.
#pragma once
#include <ArduinoJson.h>

#include <deque>
#include <string>
#include <string_view>

#include "../engine/cs.hpp"
#include "../ref/value.hpp"

namespace lib {
using ref::Val;
using namespace ArduinoJson;

// owns every string that must outlive the documents of a case (linked strings)
struct Arena {
  std::deque<std::string> strings;
  const char* keep(const std::string& s) {
    strings.push_back(s);
    return strings.back().c_str();
  }
};

struct BuildStats {
  size_t linked = 0, copied = 0, ints64 = 0, floats = 0, raws = 0;
  bool all_ok = true;
};

inline bool set_int(JsonVariant dst, const Val& v, cs::Src& s) {
  // pick any C++ integer type that can hold the value
  if (v.neg) {
    int64_t x = v.as_i64();
    unsigned c = (unsigned)s.below(4);
    if (c == 1 && x >= INT32_MIN) return dst.set((int32_t)x);
    if (c == 2 && x >= INT16_MIN) return dst.set((int16_t)x);
    if (c == 3 && x >= INT8_MIN) return dst.set((signed char)x);
    return dst.set(x);
  }
  uint64_t x = v.mag;
  unsigned c = (unsigned)s.below(8);
  if (c == 1 && x <= INT64_MAX) return dst.set((int64_t)x);
  if (c == 2 && x <= UINT32_MAX) return dst.set((uint32_t)x);
  if (c == 3 && x <= INT32_MAX) return dst.set((int32_t)x);
  if (c == 4 && x <= UINT16_MAX) return dst.set((uint16_t)x);
  if (c == 5 && x <= INT16_MAX) return dst.set((short)x);
  if (c == 6 && x <= UINT8_MAX) return dst.set((unsigned char)x);
  if (c == 7 && x <= INT64_MAX) return dst.set((long long)x);
  return dst.set(x);
}

inline bool set_string(JsonVariant dst, const std::string& str, cs::Src& s, Arena& arena, BuildStats* st) {
  bool has_nul = str.find('\0') != std::string::npos;
  unsigned c = (unsigned)s.below(has_nul ? 3 : 6);
  switch (c) {
    case 0:
      if (st) st->copied++;
      return dst.set(str);  // std::string
    case 1:
      if (st) st->copied++;
      return dst.set(std::string_view(str));
    case 2:
      if (st) st->copied++;
      return dst.set(JsonString(str.data(), str.size(), JsonString::Copied));
    case 3:
      if (st) st->linked++;
      return dst.set(arena.keep(str));  // const char* => linked
    case 4: {
      if (st) st->copied++;
      std::string tmp = str;
      bool r = dst.set(const_cast<char*>(tmp.c_str()));  // char* => copied
      for (auto& ch : tmp) ch = '#';
      return r;
    }
    default:
      if (st) st->linked++;
      return dst.set(JsonString(arena.keep(str), JsonString::Linked));
  }
}

inline bool build(JsonVariant dst, const Val& v, cs::Src& s, Arena& arena, BuildStats* st = nullptr) {
  switch (v.k) {
    case Val::Null: dst.set(nullptr); return true;
    case Val::Bool: return dst.set(v.b);
    case Val::Int:
      if (st && v.mag > UINT32_MAX) st->ints64++;
      return set_int(dst, v, s);
    case Val::Flt:
      if (st) st->floats++;
      if (v.is_f32() && s.coin()) return dst.set((float)v.d);
      return dst.set(v.d);
    case Val::Str: return set_string(dst, v.s, s, arena, st);
    case Val::Raw: {
      if (st) st->raws++;
      // bin / ext values in minimal encoding may be given through the MessagePack API types
      const std::string& r = v.s;
      if (!r.empty() && s.coin()) {
        unsigned char c = (unsigned char)r[0];
        size_t n = r.size();
        if (c == 0xC4 && n >= 2 && (size_t)(unsigned char)r[1] + 2 == n)
          return dst.set(MsgPackBinary(r.data() + 2, n - 2));
        if (c == 0xC5 && n >= 3 && n - 3 >= 256) return dst.set(MsgPackBinary(r.data() + 3, n - 3));
        if (c >= 0xD4 && c <= 0xD8 && n == 2 + ((size_t)1 << (c - 0xD4)))
          return dst.set(MsgPackExtension((int8_t)r[1], r.data() + 2, n - 2));
        if (c == 0xC7 && n >= 3 && (size_t)(unsigned char)r[1] + 3 == n) {
          size_t sz = n - 3;
          if (!(sz == 1 || sz == 2 || sz == 4 || sz == 8 || sz == 16))
            return dst.set(MsgPackExtension((int8_t)r[2], r.data() + 3, sz));
        }
      }
      if (s.coin()) return dst.set(serialized(v.s));
      return dst.set(serialized(v.s.data(), v.s.size()));
    }
    case Val::Arr: {
      JsonArray a = dst.to<JsonArray>();
      bool ok = !a.isNull();
      for (auto& e : v.a) {
        JsonVariant child = a.add<JsonVariant>();
        if (child.isUnbound()) return false;
        ok = build(child, e, s, arena, st) && ok;
      }
      return ok;
    }
    case Val::Obj: {
      JsonObject o = dst.to<JsonObject>();
      bool ok = !o.isNull();
      for (auto& kv : v.o) {
        bool has_nul = kv.first.find('\0') != std::string::npos;
        unsigned c = (unsigned)s.below(has_nul ? 2 : 4);
        JsonVariant child;
        switch (c) {
          case 0: child = o[kv.first].to<JsonVariant>(); break;
          case 1: child = o[JsonString(kv.first.data(), kv.first.size(), JsonString::Copied)].to<JsonVariant>(); break;
          case 2: child = o[arena.keep(kv.first)].to<JsonVariant>(); break;  // linked key
          default: {
            std::string tmp = kv.first;
            child = o[const_cast<char*>(tmp.c_str())].to<JsonVariant>();
            for (auto& ch : tmp) ch = '#';
          }
        }
        if (child.isUnbound()) return false;
        ok = build(child, kv.second, s, arena, st) && ok;
      }
      return ok;
    }
  }
  return false;
}

}  // namespace lib
