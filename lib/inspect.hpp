// Inspector of a document's internal state (pools, free list, string pool). Needs the friend
// hook in /repo guarded by BBLANCHON_ARDUINOJSON_VERIF. Read-only.
#pragma once
#include <ArduinoJson.h>

#include <map>
#include <set>
#include <string>
#include <vector>

struct ArduinoJsonVerifInspector {
  typedef ArduinoJson::detail::ResourceManager RM;
  typedef ArduinoJson::detail::VariantData VD;
  typedef ArduinoJson::detail::CollectionData CD;
  typedef ArduinoJson::detail::StringNode SN;
  typedef ArduinoJson::detail::SlotId SlotId;
  typedef ArduinoJson::detail::VariantType VT;
  static constexpr SlotId NUL = ArduinoJson::detail::NULL_SLOT;

  struct Report {
    std::string error;          // first violated invariant ("" when all hold)
    size_t usage = 0;           // slots handed out by the pools
    size_t reachable = 0;       // variant slots reachable from the root
    size_t extensions = 0;      // extension slots reachable
    size_t free_slots = 0;      // slots on the free list
    size_t leaked = 0;          // usage - reachable - extensions - free
    size_t pools = 0, pool_table_capacity = 0;
    bool last_pool_full = true;
    size_t string_nodes = 0;
    size_t string_bytes = 0;
    size_t max_refs = 0;
    bool overflowed = false;
    std::string state;          // canonical encoding of the concrete state (when requested)
  };

  static RM* resources(ArduinoJson::JsonDocument& doc) {
    return ArduinoJson::detail::VariantAttorney::getResourceManager(doc);
  }

  static bool valid_id(const RM* rm, SlotId id) {
    auto& pl = rm->variantPools_;
    size_t pool = (size_t)id / ARDUINOJSON_POOL_CAPACITY, idx = (size_t)id % ARDUINOJSON_POOL_CAPACITY;
    if (pool >= pl.count_) return false;
    return idx < pl.pools_[pool].usage_;
  }
  static VD* slot(const RM* rm, SlotId id) { return rm->getVariant(id); }

  struct Walk {
    const RM* rm;
    std::set<size_t> seen;  // slot ids reachable (variants and extensions)
    std::map<const SN*, size_t> users;
    std::map<const SN*, bool> raw_user;
    size_t variants = 0, extensions = 0;
    std::string error;
    bool want_state = false;
    std::string state;
    size_t depth = 0;
  };

  static void fail(Walk& w, const std::string& m) {
    if (w.error.empty()) w.error = m;
  }

  static void visit_variant(Walk& w, const VD* v) {
    if (!w.error.empty()) return;
    if (++w.depth > 2000) {
      fail(w, "variant tree deeper than 2000 (cycle?)");
      return;
    }
    uint8_t t = (uint8_t)v->type_;
    if (w.want_state) w.state += "t" + std::to_string((int)t);
    switch (v->type_) {
      case VT::Null:
      case VT::Boolean:
      case VT::Uint32:
      case VT::Int32:
      case VT::Float:
      case VT::LinkedString:
        if (v->type_ == VT::LinkedString && v->content_.asLinkedString == nullptr) fail(w, "linked string with null pointer");
        break;
      case VT::OwnedString:
      case VT::RawString: {
        const SN* n = v->content_.asOwnedString;
        if (!n) {
          fail(w, "owned/raw string with null node");
          break;
        }
        w.users[n]++;
        if (v->type_ == VT::RawString) w.raw_user[n] = true;
        if (w.want_state) w.state += "s" + std::string(n->data, n->length) + "|";
        break;
      }
#if ARDUINOJSON_USE_EXTENSIONS
#if ARDUINOJSON_USE_LONG_LONG
      case VT::Uint64:
      case VT::Int64:
#endif
#if ARDUINOJSON_USE_DOUBLE
      case VT::Double:
#endif
      {
        SlotId id = v->content_.asSlotId;
        if (id == NUL || !valid_id(w.rm, id)) {
          fail(w, "extension slot id " + std::to_string((size_t)id) + " out of range");
          break;
        }
        if (!w.seen.insert((size_t)id).second) fail(w, "extension slot " + std::to_string((size_t)id) + " reachable twice");
        w.extensions++;
        if (w.want_state) w.state += "x" + std::to_string((size_t)id);
        break;
      }
#endif
      case VT::Array:
      case VT::Object: {
        const CD& c = v->content_.asCollection;
        bool obj = v->type_ == VT::Object;
        if ((c.head_ == NUL) != (c.tail_ == NUL)) fail(w, "head_/tail_ disagree about emptiness");
        size_t n = 0;
        SlotId id = c.head_, last = NUL;
        while (id != NUL && w.error.empty()) {
          if (!valid_id(w.rm, id)) {
            fail(w, "slot id " + std::to_string((size_t)id) + " in a chain is outside the pools' usage");
            break;
          }
          if (!w.seen.insert((size_t)id).second) {
            fail(w, "slot " + std::to_string((size_t)id) + " is reachable twice (sharing or cycle)");
            break;
          }
          const VD* child = slot(w.rm, id);
          w.variants++;
          if (w.want_state) w.state += (obj && n % 2 == 0 ? "k" : "v") + std::to_string((size_t)id);
          if (obj && n % 2 == 0) {
            if (child->type_ != VT::LinkedString && child->type_ != VT::OwnedString) fail(w, "object key slot does not hold a string");
          }
          visit_variant(w, child);
          last = id;
          id = child->next_;
          n++;
        }
        if (w.error.empty() && last != c.tail_) fail(w, "tail_ is not the last slot of the chain");
        if (w.error.empty() && obj && (n % 2) != 0) fail(w, "object chain has an odd number of slots (member without value)");
        if (w.want_state) w.state += obj ? "}" : "]";
        break;
      }
      default: fail(w, "unknown variant type " + std::to_string((int)t));
    }
    w.depth--;
  }

  static Report inspect(ArduinoJson::JsonDocument& doc, bool allow_leaks = false, bool want_state = false, bool check_strings_unique = true) {
    Report r;
    RM* rm = resources(doc);
    auto& pl = rm->variantPools_;
    r.overflowed = rm->overflowed_;
    r.pools = pl.count_;
    r.pool_table_capacity = pl.capacity_;
    if (pl.count_ > pl.capacity_) r.error = "pool count exceeds pool table capacity";
    if ((size_t)pl.count_ > max_pools() && r.error.empty()) r.error = "more pools than the slot id type can address (count exceeds maxPools)";
    if ((pl.pools_ == pl.preallocatedPools_) && pl.capacity_ != ARDUINOJSON_INITIAL_POOL_COUNT && r.error.empty())
      r.error = "inline pool table with a capacity other than INITIAL_POOL_COUNT";
    size_t usage = 0;
    for (size_t i = 0; i < pl.count_; i++) {
      auto& p = pl.pools_[i];
      if (p.usage_ > p.capacity_ && r.error.empty()) r.error = "pool usage exceeds its capacity";
      if ((size_t)p.capacity_ > (size_t)ARDUINOJSON_POOL_CAPACITY && r.error.empty()) r.error = "pool larger than POOL_CAPACITY";
      if (i + 1 < pl.count_ && p.usage_ != p.capacity_ && p.slots_ != nullptr && r.error.empty()) r.error = "a pool other than the last one is not full";
      if (i + 1 == pl.count_) r.last_pool_full = p.usage_ >= p.capacity_;
      // ids of this pool must not reach NULL_SLOT
      if (p.usage_ > 0 && (size_t)i * ARDUINOJSON_POOL_CAPACITY + p.usage_ - 1 >= (size_t)NUL && r.error.empty())
        r.error = "a slot with id NULL_SLOT (or beyond) was handed out";
      usage += p.usage_;
    }
    r.usage = usage;
    Walk w;
    w.rm = rm;
    w.want_state = want_state;
    VD* root = ArduinoJson::detail::VariantAttorney::getData(doc);
    if (r.error.empty()) visit_variant(w, root);
    if (r.error.empty()) r.error = w.error;
    r.reachable = w.variants;
    r.extensions = w.extensions;
    // free list
    size_t nfree = 0;
    if (r.error.empty()) {
      SlotId id = pl.freeList_;
      std::set<size_t> fseen;
      while (id != NUL) {
        if (!valid_id(rm, id)) {
          r.error = "free list holds id " + std::to_string((size_t)id) + " outside the pools' usage";
          break;
        }
        if (w.seen.count((size_t)id)) {
          r.error = "slot " + std::to_string((size_t)id) + " is both linked in the tree and on the free list";
          break;
        }
        if (!fseen.insert((size_t)id).second) {
          r.error = "free list is cyclic";
          break;
        }
        nfree++;
        auto* raw = pl.getSlot(id);
        id = *reinterpret_cast<SlotId*>(raw);
      }
    }
    r.free_slots = nfree;
    if (r.error.empty()) {
      if (w.variants + w.extensions + nfree > usage) r.error = "more slots reachable/free than handed out";
      else r.leaked = usage - w.variants - w.extensions - nfree;
      if (r.error.empty() && r.leaked && !allow_leaks)
        r.error = std::to_string(r.leaked) + " slot(s) neither reachable nor free (leaked) although no allocation failed";
    }
    // string pool
    if (r.error.empty()) {
      std::set<std::string> contents;
      size_t guard = 0;
      for (SN* n = rm->stringPool_.strings_; n; n = n->next) {
        if (++guard > 10000000) {
          r.error = "string pool list does not end";
          break;
        }
        r.string_nodes++;
        r.string_bytes += ArduinoJson::detail::sizeofString(n->length);
        size_t u = w.users.count(n) ? w.users[n] : 0;
        // raw nodes (bin/ext, serialized()) are sized byte blocks; strings must be terminated
        if (!w.raw_user.count(n) && u > 0 && n->data[n->length] != 0) {
          r.error = "string node not NUL-terminated at its length";
          break;
        }
        if (n->references > r.max_refs) r.max_refs = n->references;
        if (u == 0 && !allow_leaks) {
          r.error = "string node " + cs_quote(std::string(n->data, n->length)) + " has no user";
          break;
        }
        if ((size_t)n->references != u && !allow_leaks) {
          r.error = "string node " + cs_quote(std::string(n->data, n->length)) + " has references=" + std::to_string((size_t)n->references) +
                    " but " + std::to_string(u) + " user(s)";
          break;
        }
        if (allow_leaks && (size_t)n->references < u) {
          r.error = "string node has fewer references than users";
          break;
        }
        if (check_strings_unique && !w.raw_user.count(n)) {
          if (!contents.insert(std::string(n->data, n->length)).second) {
            r.error = "two string nodes hold the same content " + cs_quote(std::string(n->data, n->length));
            break;
          }
        }
        w.users.erase(n);
      }
      if (r.error.empty() && !w.users.empty()) r.error = "a variant uses a string node that is not in the string pool";
    }
    if (want_state) {
      r.state = w.state + "|free:";
      SlotId id = pl.freeList_;
      size_t g = 0;
      while (id != NUL && g++ < 100000 && valid_id(rm, id)) {
        r.state += std::to_string((size_t)id) + ",";
        id = *reinterpret_cast<SlotId*>(pl.getSlot(id));
      }
      r.state += "|pools:" + std::to_string(r.pools) + "/" + std::to_string(r.pool_table_capacity) + "/" + std::to_string(usage);
    }
    return r;
  }

  static std::string cs_quote(const std::string& s) {
    std::string o = "\"";
    for (unsigned char c : s.substr(0, 40)) {
      if (c >= 0x20 && c < 0x7f && c != '"') o += (char)c;
      else {
        char b[8];
        snprintf(b, sizeof b, "\\x%02x", c);
        o += b;
      }
    }
    return o + "\"";
  }

  static bool free_list_empty(ArduinoJson::JsonDocument& doc) { return resources(doc)->variantPools_.freeList_ == NUL; }
  static bool last_pool_full(ArduinoJson::JsonDocument& doc) {
    auto& pl = resources(doc)->variantPools_;
    if (pl.count_ == 0) return true;
    auto& p = pl.pools_[pl.count_ - 1];
    return p.usage_ >= p.capacity_;
  }
  static size_t pool_count(ArduinoJson::JsonDocument& doc) { return resources(doc)->variantPools_.count_; }
  // at the moment a new pool's slots are requested: the previous last pool must be full
  static bool previous_pool_full(ArduinoJson::JsonDocument& doc) {
    auto& pl = resources(doc)->variantPools_;
    if (pl.count_ < 2) return true;
    auto& p = pl.pools_[pl.count_ - 2];
    return p.usage_ >= p.capacity_;
  }
  static size_t slot_size() { return RM::slotSize; }
  static size_t max_pools() { return (size_t)NUL / ARDUINOJSON_POOL_CAPACITY + ((size_t)NUL % ARDUINOJSON_POOL_CAPACITY ? 1 : 0); }
};

namespace lib {
typedef ArduinoJsonVerifInspector Inspector;
}
