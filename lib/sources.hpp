// Input kinds for the deserializers. Every kind delivers the bytes from an exactly sized heap
// block so that a read past the supplied input hits an ASan redzone.
#pragma once
#include <ArduinoJson.h>

#include <cstdlib>
#include <cstring>
#include <sstream>
#include <string>
#include <string_view>

namespace lib {
using namespace ArduinoJson;

struct ExactBuf {
  char* p;
  size_t n;
  explicit ExactBuf(const std::string& s) : n(s.size()) {
    p = static_cast<char*>(malloc(n ? n : 1));
    if (n) memcpy(p, s.data(), n);
    else p[0] = 0x5A;  // a 1-byte block for the empty input; never legitimately read
  }
  ExactBuf(const ExactBuf&) = delete;
  ~ExactBuf() { free(p); }
};

inline std::string cut_at_nul(const std::string& s) {
  size_t z = s.find('\0');
  return z == std::string::npos ? s : s.substr(0, z);
}

// Custom reader that counts what the deserializer asks for.
struct CountingReader {
  const std::string* data;
  size_t pos = 0;
  size_t chunk = 0;          // readBytes delivers at most `chunk` bytes per call when non-zero
  size_t reads = 0;          // read() calls
  size_t read_bytes_calls = 0;
  size_t eof_hits = 0;       // times the reader had to answer "no more data"
  size_t reads_after_eof = 0;
  bool short_count_seen = false;
  size_t requests_after_short = 0;
  uintptr_t min_sp = (uintptr_t)-1;  // lowest stack address seen inside read()/readBytes()
  explicit CountingReader(const std::string& d, size_t chunk_ = 0) : data(&d), chunk(chunk_) {}

  void note_sp() {
    uintptr_t sp = (uintptr_t)__builtin_frame_address(0);
    if (sp < min_sp) min_sp = sp;
  }
  int read() {
    note_sp();
    reads++;
    if (short_count_seen) requests_after_short++;
    if (pos < data->size()) return (unsigned char)(*data)[pos++];
    if (eof_hits) reads_after_eof++;
    eof_hits++;
    return -1;
  }
  size_t readBytes(char* buffer, size_t length) {
    note_sp();
    read_bytes_calls++;
    if (short_count_seen) requests_after_short++;
    size_t avail = data->size() - pos;
    size_t n = length < avail ? length : avail;
    // a Stream-like source may return fewer bytes than asked only at end of data: the library
    // treats a short count as end of input, so chunking is emulated by looping here
    if (n) memcpy(buffer, data->data() + pos, n);
    pos += n;
    if (n < length) {
      if (eof_hits) reads_after_eof++;
      eof_hits++;
      short_count_seen = true;
    }
    return n;
  }
};

// std::streambuf that makes its data available a few bytes at a time (like a pipe or a socket):
// sgetn()/read() refill through underflow(), readsome() only sees the current chunk
struct ChunkedBuf : std::streambuf {
  std::string data;
  size_t pos = 0, chunk;
  ChunkedBuf(const std::string& d, size_t chunk_) : data(d), chunk(chunk_ ? chunk_ : 1) { setg(nullptr, nullptr, nullptr); }
  int_type underflow() override {
    if (pos >= data.size()) return traits_type::eof();
    size_t n = data.size() - pos < chunk ? data.size() - pos : chunk;
    char* b = &data[pos];
    setg(b, b, b + n);
    pos += n;
    return traits_type::to_int_type(*gptr());
  }
  size_t consumed() const { return pos - (size_t)(egptr() - gptr()); }
};

enum Kind {
  K_CSTR = 0,     // const char*, zero terminated
  K_MUT_CSTR,     // char*, zero terminated
  K_PTR_SIZE,     // (const char*, size)
  K_UPTR_SIZE,    // (const unsigned char*, size)
  K_VOID_SIZE,    // (const void*, size) -- via unsigned char
  K_STD_STRING,
  K_STRING_VIEW,
  K_ISTREAM,
  K_READER,       // custom reader
  K_VARIANT,      // variant of another document holding the text (zero terminated semantics)
  K_ISTREAM_CHUNKED,  // std::istream over a streambuf that refills 3 bytes at a time
  K_COUNT
};
inline const char* kind_name(int k) {
  static const char* n[] = {"const char*", "char*", "(char*,size)", "(uchar*,size)", "(void*,size)", "std::string",
                            "string_view", "istream", "custom reader", "variant", "istream(chunked)"};
  return k >= 0 && k < K_COUNT ? n[k] : "?";
}
inline bool kind_zero_terminated(int k) { return k == K_CSTR || k == K_MUT_CSTR || k == K_VARIANT; }

// call(in...) is a generic callable invoking deserializeJson/deserializeMsgPack(dst, in..., opts...)
template <class Call>
DeserializationError feed(int kind, const std::string& bytes, Call&& call, CountingReader** reader_out = nullptr) {
  switch (kind) {
    case K_CSTR: {
      std::string z = cut_at_nul(bytes);
      z.push_back('\0');
      ExactBuf b(z);
      return call(static_cast<const char*>(b.p));
    }
    case K_MUT_CSTR: {
      std::string z = cut_at_nul(bytes);
      z.push_back('\0');
      ExactBuf b(z);
      return call(static_cast<char*>(b.p));
    }
    case K_PTR_SIZE: {
      ExactBuf b(bytes);
      return call(static_cast<const char*>(b.p), bytes.size());
    }
    case K_UPTR_SIZE: {
      ExactBuf b(bytes);
      return call(reinterpret_cast<const unsigned char*>(b.p), bytes.size());
    }
    case K_VOID_SIZE: {
      ExactBuf b(bytes);
      return call(static_cast<const void*>(b.p), bytes.size());
    }
    case K_STD_STRING: {
      std::string s = bytes;
      s.shrink_to_fit();
      return call(s);
    }
    case K_STRING_VIEW: {
      ExactBuf b(bytes);
      std::string_view sv(b.p, bytes.size());
      return call(sv);
    }
    case K_ISTREAM: {
      std::istringstream is(bytes);
      return call(is);
    }
    case K_READER: {
      static thread_local CountingReader* last = nullptr;
      CountingReader* r = new CountingReader(bytes);
      delete last;
      last = r;
      if (reader_out) *reader_out = r;
      return call(*r);
    }
    case K_ISTREAM_CHUNKED: {
      ChunkedBuf buf(bytes, 3);
      std::istream is(&buf);
      return call(is);
    }
    case K_VARIANT: {
      // linked string: not subject to the configured maximum string length; exact block for ASan
      JsonDocument holder;
      std::string z = cut_at_nul(bytes);
      z.push_back('\0');
      ExactBuf b(z);
      holder.set(static_cast<const char*>(b.p));
      return call(holder.as<JsonVariantConst>());
    }
  }
  return DeserializationError::InvalidInput;
}

}  // namespace lib
