// Instrumented ArduinoJson::Allocator: live-block ledger, call log, fault plans.
#pragma once
#include <ArduinoJson.h>

#include <cstdlib>
#include <functional>
#include <cstring>
#include <map>
#include <string>
#include <vector>

namespace lib {

struct LedgerError {
  std::string what;
};

class Ledger : public ArduinoJson::Allocator {
 public:
  struct Block {
    size_t size;
    uint64_t serial;
  };
  enum FaultMode { NONE, NTH, FROM, SET };

  // statistics
  uint64_t calls = 0;            // every allocator call
  uint64_t fallible_calls = 0;   // allocate + growing reallocate
  uint64_t refused = 0;          // calls answered with nullptr
  uint64_t allocs = 0, reallocs = 0, frees = 0;
  size_t live_bytes = 0, peak_bytes = 0, cumulative_bytes = 0;
  std::string error;             // first discipline violation (foreign/double release)
  std::string log;               // compact call log (when enabled)
  bool logging = false;
  const char* name = "L";

  // fault plan
  FaultMode mode = NONE;
  uint64_t fault_k = 0;          // 1-based index among fallible calls
  std::vector<bool> fault_set;   // SET: fault_set[i] => fail fallible call i+1
  size_t byte_limit = (size_t)-1;  // refuse when live_bytes would exceed (capacity scenarios)
  size_t runaway_limit = (size_t)48 << 20;

  std::function<void(size_t)> on_allocate;  // optional hook, called at the start of every allocate()
  uint64_t* shared_clock = nullptr;  // when set, fault plans index the fallible calls of all ledgers sharing it

  ~Ledger() {
    // free whatever the library leaked so ASan stays quiet; the property decides if it is an error
    for (auto& kv : live_) free(kv.first);
  }

  void plan_none() { mode = NONE; }
  void plan_nth(uint64_t k) {
    mode = NTH;
    fault_k = k;
  }
  void plan_from(uint64_t k) {
    mode = FROM;
    fault_k = k;
  }
  void plan_set(const std::vector<bool>& s) {
    mode = SET;
    fault_set = s;
  }
  void reset_counters() {
    calls = fallible_calls = refused = allocs = reallocs = frees = 0;
    cumulative_bytes = 0;
    peak_bytes = live_bytes;
  }

  size_t live_blocks() const { return live_.size(); }
  bool is_live(void* p) const { return live_.count(p) != 0; }
  size_t block_size(void* p) const {
    auto it = live_.find(p);
    return it == live_.end() ? 0 : it->second.size;
  }
  const std::map<void*, Block>& blocks() const { return live_; }

  void* allocate(size_t size) override {
    calls++;
    allocs++;
    if (on_allocate) on_allocate(size);
    if (should_fail(size, 0)) {
      note('A', size, false);
      return nullptr;
    }
    void* p = malloc(size ? size : 1);
    add(p, size);
    note('A', size, true);
    return p;
  }

  void deallocate(void* ptr) override {
    calls++;
    frees++;
    auto it = live_.find(ptr);
    if (it == live_.end()) {
      if (error.empty())
        error = std::string("deallocate of a block that is not live in ledger ") + name;
      return;  // do not free: might belong to someone else
    }
    note('D', it->second.size, true);
    live_bytes -= it->second.size;
    live_.erase(it);
    free(ptr);
  }

  void* reallocate(void* ptr, size_t new_size) override {
    calls++;
    reallocs++;
    if (!ptr) {
      // realloc(nullptr) behaves as allocate
      if (should_fail(new_size, 0)) {
        note('R', new_size, false);
        return nullptr;
      }
      void* p = malloc(new_size ? new_size : 1);
      add(p, new_size);
      note('R', new_size, true);
      return p;
    }
    auto it = live_.find(ptr);
    if (it == live_.end()) {
      if (error.empty())
        error = std::string("reallocate of a block that is not live in ledger ") + name;
      return nullptr;
    }
    size_t old = it->second.size;
    if (new_size > old) {
      if (should_fail(new_size, old)) {
        note('R', new_size, false);
        return nullptr;
      }
    }
    // always move, so stale pointers into the old block are visible to ASan
    void* p = malloc(new_size ? new_size : 1);
    memcpy(p, ptr, old < new_size ? old : new_size);
    live_bytes -= old;
    live_.erase(it);
    free(ptr);
    add(p, new_size);
    note('R', new_size, true);
    return p;
  }

 private:
  bool should_fail(size_t size, size_t old) {
    fallible_calls++;
    uint64_t idx = fallible_calls;
    if (shared_clock) idx = ++*shared_clock;
    bool f = false;
    switch (mode) {
      case NONE: break;
      case NTH: f = idx == fault_k; break;
      case FROM: f = idx >= fault_k; break;
      case SET: f = idx - 1 < fault_set.size() && fault_set[idx - 1]; break;
    }
    if (!f && byte_limit != (size_t)-1 && live_bytes - old + size > byte_limit) f = true;
    // runaway guard: no generated scenario needs this much; an operation that keeps allocating is
    // stopped here (and reported) instead of exhausting the machine
    if (!f && size < ((size_t)4 << 20) && live_bytes - old + size > runaway_limit) {
      f = true;
      if (error.empty()) error = "runaway allocation: more than " + std::to_string(runaway_limit >> 20) + " MiB live in one document";
    }
    if (f) refused++;
    return f;
  }
  void add(void* p, size_t size) {
    live_[p] = Block{size, ++serial_};
    live_bytes += size;
    cumulative_bytes += size;
    if (live_bytes > peak_bytes) peak_bytes = live_bytes;
  }
  void note(char op, size_t size, bool ok) {
    if (!logging) return;
    log += op;
    log += std::to_string(size);
    log += ok ? ' ' : '!';
    if (!ok) log += ' ';
  }
  std::map<void*, Block> live_;
  uint64_t serial_ = 0;
};

}  // namespace lib
