#!/usr/bin/env python3
"""Apply a seeded change to /repo, run checks against it, undo it.
   seedcheck.py <patch.diff> [ID ...]      (default: all registered checks)
Prints one line per check: CAUGHT / missed / error.
With VERIF_SEED_REPO=<scratch worktree of /repo at the same commit> the change is applied there and the
checks are pointed at it (VERIF_REPO), so that a thorough run in flight keeps building from a clean /repo."""
import json, os, subprocess, sys, time
ROOT = os.path.dirname(os.path.abspath(__file__))
REPO = os.environ.get("VERIF_SEED_REPO", "/repo")
patch = os.path.abspath(sys.argv[1])
ids = sys.argv[2:] or [c["property_id"] for c in json.load(open(os.path.join(ROOT, "MANIFEST.json")))["checks"]]
st = subprocess.run(["git", "-C", REPO, "status", "--porcelain", "--untracked-files=no"], stdout=subprocess.PIPE, text=True).stdout.strip()
if st:
    print("refusing: " + REPO + " has local modifications:\n" + st)
    sys.exit(2)
r = subprocess.run(["git", "-C", REPO, "apply", patch])
if r.returncode != 0:
    print("patch does not apply")
    sys.exit(2)
res = {}
try:
    for i in ids:
        t0 = time.time()
        env = dict(os.environ)
        env["VERIF_KEEP_EVIDENCE"] = "1"
        env["VERIF_REPO"] = REPO
        p = subprocess.run([sys.executable, os.path.join(ROOT, "check.py"), "run", i, "--tier", "quick", "--no-evidence"], stdout=subprocess.PIPE, stderr=subprocess.STDOUT, text=True, cwd=ROOT, env=env)
        lines = [l for l in p.stdout.splitlines() if l.startswith("VIOLATION") or l.startswith("HARNESS-ERROR")]
        gen = [l for l in lines if l.startswith("VIOLATION") and "witness" not in l]
        wit = [l for l in lines if l.startswith("VIOLATION") and "witness" in l]
        verdict = "CAUGHT" if p.returncode == 1 else ("missed" if p.returncode == 0 else "error")
        res[i] = verdict
        print("%-4s %-7s %5.0fs  generated=%d witness=%d  %s" % (i, verdict, time.time() - t0, len(gen), len(wit), ((gen or lines)[0][:120] if lines else "")), flush=True)
finally:
    subprocess.run(["git", "-C", REPO, "checkout", "--", "."])
print(json.dumps(res))
