#!/bin/bash
# Runs every registered check (quick tier by default) on the current tree and validates the evidence files.
#   ./run_all.sh [quick|thorough] [ID ...]     (no IDs: all checks, in MANIFEST order)
cd "$(dirname "$0")"
tier=${1:-quick}
mkdir -p build
shift
ids="$*"
[ -z "$ids" ] && ids=$(python3 -c "
import json
print(' '.join(c['property_id'] for c in json.load(open('MANIFEST.json'))['checks']))")
rc=0
for id in $ids; do
  python3 check.py run $id --tier $tier > build/last_$id.log 2>&1
  r=$?
  tail -1 build/last_$id.log | sed "s/^/[$id exit=$r] /"
  grep -h "^KNOWN-FINDING\|^VIOLATION\|^HARNESS-ERROR" build/last_$id.log | cut -c1-200
  [ $r -ne 0 ] && rc=1
done
python3-vt - <<'PY'
import json, jsonschema, glob
sch = json.load(open('/root/.vp/EVIDENCE.schema.json'))
for f in sorted(glob.glob('evidence/*.json')):
    try:
        jsonschema.validate(json.load(open(f)), sch)
    except Exception as e:
        print('INVALID EVIDENCE', f, str(e)[:200])
jsonschema.validate(json.load(open('MANIFEST.json')), json.load(open('/root/.vp/MANIFEST.schema.json')))
print('evidence/manifest validated')
PY
exit $rc
