#!/usr/bin/env python3
"""Regenerates MANIFEST.json from registry.py (run after editing the registry)."""
import json, os, subprocess, sys
ROOT = os.path.dirname(os.path.abspath(__file__))
sys.path.insert(0, ROOT)
from registry import PROPS
ALL = [json.loads(l)["id"] for l in open(os.path.join(ROOT, "properties.jsonl"))]
NOT_APPLICABLE = {}
try:
    from registry import NOT_APPLICABLE
except ImportError:
    pass
hooks = []
try:
    out = subprocess.run(["git", "-C", "/repo", "log", "--format=%h %s"], stdout=subprocess.PIPE, text=True).stdout
    hooks = [l.split()[0] for l in out.splitlines() if l.split(" ", 1)[1].startswith("hook:")]
except Exception:
    pass
checks = []
for pid in ALL:
    if pid not in PROPS:
        continue
    p = PROPS[pid]
    c = {
        "property_id": pid,
        "quick_cmd": "python3 check.py run %s --tier quick" % pid,
        "thorough_cmd": "python3 check.py run %s --tier thorough" % pid,
        "evidence_file": "/verif/evidence/%s.json" % pid,
        "replay_cmd_template": "python3 check.py replay %s {path}" % pid,
        "engine": "cs-engine",
        "level_claimed": {"category": p["level"], "text": p["level_text"], "design_ref": p.get("design_ref", "DESIGN.md §4 " + pid)},
        "level_note": p["level_note"],
        "technique": p["technique"],
    }
    checks.append(c)
na = []
for pid in ALL:
    if pid not in PROPS:
        na.append({"property_id": pid, "reason": NOT_APPLICABLE.get(pid, "check not built yet in this session; the technique applies (see DESIGN.md §4)")})
m = {
    "version": 1,
    "setup_cmd": "python3 check.py setup",
    "hooks": {
        "guard": "BBLANCHON_ARDUINOJSON_VERIF",
        "enable": "checks compile the header-only library from /repo/src with -DBBLANCHON_ARDUINOJSON_VERIF=1 -DARDUINOJSON_DEBUG=1 (see check.py BASE_FLAGS)",
        "baseline_off_cmd": "cmake --build /repo/_build -j16 && ctest --test-dir /repo/_build -j8 --timeout 900",
        "source_commits": hooks,
        "add_only": True,
    },
    "engines": [
        {"name": "cs-engine", "path": "engine/", "serves_properties": [c["property_id"] for c in checks],
         "kind_free_text": "own choice-sequence property-based testing engine (random / replay / bounded-exhaustive enumeration / libFuzzer byte decoding, fork-isolated shrinking) with independent reference implementations under ref/"},
    ],
    "checks": checks,
    "not_applicable": na,
    "notes": "Known findings: /verif/known_findings.txt. Replay files: /verif/replays/. Seeded breakage used to test the checks: /verif/seeded/.",
}
json.dump(m, open(os.path.join(ROOT, "MANIFEST.json"), "w"), indent=1)
print("MANIFEST.json: %d checks, %d not_applicable" % (len(checks), len(na)))
