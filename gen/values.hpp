// Generators for reference values. All randomness comes from cs::Src; value 0 of each draw is
// the simplest alternative so that generic shrinking simplifies cases.
#pragma once
#include <cfloat>
#include <cmath>

#include "../ref/value.hpp"

namespace gen {
using cs::Src;
using ref::Val;

struct Opts {
  size_t max_depth = 4;
  size_t max_children = 5;
  size_t max_str = 24;
  size_t node_budget = 40;
  bool floats = true;
  bool nonfinite = false;
  bool raw = false;          // raw (serialized) values
  bool dup_keys = false;     // objects may repeat a key
  bool utf8_only = true;     // strings are valid UTF-8 (else arbitrary bytes)
  bool nul = true;           // strings may contain NUL
  bool long_strings = false; // occasionally strings at builder/header boundaries
  bool top_container = false;
};

inline void append_utf8(std::string& o, uint32_t cp) {
  if (cp < 0x80) {
    o += (char)cp;
  } else if (cp < 0x800) {
    o += (char)(0xC0 | (cp >> 6));
    o += (char)(0x80 | (cp & 0x3F));
  } else if (cp < 0x10000) {
    o += (char)(0xE0 | (cp >> 12));
    o += (char)(0x80 | ((cp >> 6) & 0x3F));
    o += (char)(0x80 | (cp & 0x3F));
  } else {
    o += (char)(0xF0 | (cp >> 18));
    o += (char)(0x80 | ((cp >> 12) & 0x3F));
    o += (char)(0x80 | ((cp >> 6) & 0x3F));
    o += (char)(0x80 | (cp & 0x3F));
  }
}

// one Unicode scalar, biased to the interesting ones
inline uint32_t gen_scalar(Src& s, bool nul) {
  static const unsigned w[] = {10, 4, 3, 2, 2, 1};
  switch (s.pick(w)) {
    case 0: return (uint32_t)('a' + s.below(26));
    case 1: {
      static const uint32_t sp[] = {'"', '\\', '/', '\b', '\f', '\n', '\r', '\t', ' ', '\'', 0x7f, 0x1f, 0x01,
                                    '0', '9', '-', '.', 'e', ':', ',', '[', ']', '{', '}', '*', 'u'};
      return sp[s.below(sizeof sp / sizeof sp[0])];
    }
    case 2: return (uint32_t)s.range(0x80, 0x7FF);
    case 3: {
      uint32_t c = (uint32_t)s.range(0x800, 0xFFFF);
      if (c >= 0xD800 && c <= 0xDFFF) c = 0xFFFD;
      return c;
    }
    case 4: return (uint32_t)s.range(0x10000, 0x10FFFF);
    default: return nul ? 0 : (uint32_t)s.range(1, 0x7F);
  }
}

inline size_t gen_len(Src& s, const Opts& o) {
  if (o.long_strings && s.chance(1, 24)) {
    static const size_t L[] = {30, 31, 32, 33, 62, 63, 64, 65, 126, 127, 128, 254, 255, 256, 257, 300, 1000};
    return L[s.below(sizeof L / sizeof L[0])];
  }
  return s.small_size(o.max_str);
}

inline std::string gen_string(Src& s, const Opts& o) {
  size_t n = gen_len(s, o);
  std::string out;
  if (n == 0) return out;
  if (s.chance(1, 5)) {  // numeric-looking strings matter for C13/C14
    static const char* num[] = {"0", "1", "-1", "3.25", "1e3", "42", "18446744073709551615",
                                "-9223372036854775808", "-0", "1e-2", "true", "null", "NaN", "*"};
    return num[s.below(sizeof num / sizeof num[0])];
  }
  bool ascii_only = s.chance(1, 3);
  while (out.size() < n) {
    if (ascii_only) {
      out += (char)('a' + s.below(26));
    } else if (o.utf8_only) {
      append_utf8(out, gen_scalar(s, o.nul));
    } else {
      static const unsigned w[] = {6, 3, 1};
      switch (s.pick(w)) {
        case 0: append_utf8(out, gen_scalar(s, o.nul)); break;
        case 1: {
          unsigned char c = (unsigned char)s.below(256);
          if (c == 0 && !o.nul) c = 1;
          out += (char)c;
          break;
        }
        default: {
          static const unsigned char b[] = {0x80, 0xBF, 0xC0, 0xC1, 0xE0, 0xED, 0xF4, 0xF5, 0xFE, 0xFF};
          out += (char)b[s.below(sizeof b)];
        }
      }
    }
  }
  return out;
}

inline std::string gen_key(Src& s, const Opts& o) {
  static const unsigned w[] = {8, 3};
  if (s.pick(w) == 0) {
    static const char* K[] = {"a", "b", "", "ab", "abc", "c", "key", "*", "0", "a b", "\xC3\xA9"};
    size_t i = (size_t)s.below(sizeof K / sizeof K[0] + (o.nul ? 2 : 0));
    if (i == sizeof K / sizeof K[0]) return std::string("a\0b", 3);
    if (i == sizeof K / sizeof K[0] + 1) return std::string("\0", 1);
    return K[i];
  }
  return gen_string(s, o);
}

// boundary-biased integer as a Val::Int in [-2^63, 2^64)
// set by the history executor in builds with ARDUINOJSON_USE_LONG_LONG=0: on this LP64 host `long` is
// 64 bits wide while the storage is 32, so histories stay within what a real target of that
// configuration can express (C09 keeps the wide values: out-of-range integers must become null)
inline bool& clamp_int32() {
  static bool v = false;
  return v;
}
inline Val gen_int_wide(Src& s);
inline Val gen_int(Src& s) {
  Val v = gen_int_wide(s);
  if (clamp_int32()) {
    if (v.neg && v.mag > 2147483648ull) v.mag %= 2147483648ull;
    if (!v.neg && v.mag > 2147483647ull) v.mag %= 2147483648ull;  // also reachable through the signed C++ types
    if (v.mag == 0) v.neg = false;
  }
  return v;
}
inline Val gen_int_wide(Src& s) {
  static const unsigned w[] = {6, 6, 3, 2, 2};
  switch (s.pick(w)) {
    case 0: {  // small
      uint64_t m = s.below(300);
      return s.coin() ? Val::negmag(m) : Val::uint(m);
    }
    case 1: {  // power of two +- small, both signs
      unsigned k = (unsigned)s.range(0, 64);
      int64_t off = s.irange(-3, 3);
      bool neg = s.coin();
      unsigned __int128 base = k == 64 ? ((unsigned __int128)1 << 64) : ((unsigned __int128)1 << k);
      __int128 v = (__int128)base + off;
      if (v < 0) v = 0;
      if (neg) {
        if (v > ((__int128)1 << 63)) v = (__int128)1 << 63;
        return Val::negmag((uint64_t)v);
      }
      if (v > (__int128)UINT64_MAX) v = UINT64_MAX;
      return Val::uint((uint64_t)v);
    }
    case 2: {  // power of ten +- small
      unsigned k = (unsigned)s.range(0, 19);
      uint64_t p = 1;
      for (unsigned i = 0; i < k; i++) p *= 10;
      uint64_t v = p + (uint64_t)s.irange(-2, 2);
      if (s.coin()) return Val::negmag(v > (1ull << 63) ? (1ull << 63) : v);
      return Val::uint(v);
    }
    case 3: {  // random width
      unsigned bits = (unsigned)s.range(1, 64);
      uint64_t v = s.bits64();
      if (bits < 64) v &= ((1ull << bits) - 1);
      if (s.coin()) return Val::negmag(v > (1ull << 63) ? (v >> 1) : v);
      return Val::uint(v);
    }
    default: {
      static const uint64_t L[] = {0,          1,          127,        128,        255,        256,
                                   32767,      32768,      65535,      65536,      2147483647, 2147483648ull,
                                   4294967295ull, 4294967296ull, 9007199254740992ull, 9007199254740993ull,
                                   9223372036854775807ull, 9223372036854775808ull, 18446744073709551615ull,
                                   31, 32, 33, 15, 16};
      uint64_t v = L[s.below(sizeof L / sizeof L[0])];
      if (s.coin() && v <= (1ull << 63)) return Val::negmag(v);
      return Val::uint(v);
    }
  }
}

inline double bits_to_double(uint64_t b) {
  double d;
  memcpy(&d, &b, 8);
  return d;
}
inline float bits_to_float(uint32_t b) {
  float f;
  memcpy(&f, &b, 4);
  return f;
}

// finite (unless nonfinite) double, boundary-biased
inline double gen_double(Src& s, bool nonfinite) {
  static const unsigned w[] = {6, 4, 4, 3, 3, 2, 1};
  double v = 0;
  switch (s.pick(w)) {
    case 0: {  // short decimal
      int64_t m = s.irange(-9999, 9999);
      static const double P[] = {1, 10, 100, 1000, 1e4, 1e5, 1e6};
      v = (double)m / P[s.below(7)];
      break;
    }
    case 1: {  // random float32 value
      uint32_t b = (uint32_t)s.below(1ull << 32);
      v = (double)bits_to_float(b);
      break;
    }
    case 2: v = bits_to_double(s.bits64()); break;
    case 3: {  // powers of two / ten with random sign and small perturbation
      int e = (int)s.irange(-300, 300);
      v = s.coin() ? std::pow(10.0, e) : std::ldexp(1.0, e);
      if (s.coin()) v = std::nextafter(v, s.coin() ? 0.0 : INFINITY);
      if (s.coin()) v = -v;
      break;
    }
    case 4: {  // integral values stored as float
      Val i = gen_int(s);
      v = (double)i.as_ld();
      if (s.coin()) v += 0.5;
      break;
    }
    case 5: {
      static const double L[] = {0.0, -0.0, FLT_MAX, FLT_MIN, DBL_MAX, DBL_MIN, 4.9e-324, 1e7, 9999999.0,
                                 1e-5, 0.00001234, 16777216.0, 16777217.0, 16777218.0, 3.4028236e38, 1e38, 1e39,
                                 0.1, 0.3, 1.7976931348623157e308, 2.2250738585072014e-308, 123456789.0, 1e15, 1e16,
                                 9007199254740993.0, 18446744073709551616.0, 9223372036854775808.0, 4294967296.0};
      v = L[s.below(sizeof L / sizeof L[0])];
      if (s.coin()) v = -v;
      break;
    }
    default:
      if (nonfinite) {
        static const double N[] = {INFINITY, -INFINITY, NAN};
        v = N[s.below(3)];
      } else {
        v = 1.5;
      }
  }
  if (!nonfinite && !std::isfinite(v)) v = 2.5;
  return v;
}

inline Val gen_scalar_value(Src& s, const Opts& o) {
  static const unsigned w[] = {2, 2, 5, 4, 5, 1};
  switch (s.pick(w)) {
    case 0: return Val::null();
    case 1: return Val::boolean(s.coin());
    case 2: return gen_int(s);
    case 3:
      if (o.floats) return Val::flt(gen_double(s, o.nonfinite));
      return gen_int(s);
    case 4: return Val::str(gen_string(s, o));
    default:
      if (o.raw) {
        static const char* R[] = {"1", "[1,2]", "{\"x\":null}", "\"raw\"", "true", "1e5", " 7 "};
        return Val::raw(R[s.below(sizeof R / sizeof R[0])]);
      }
      return Val::str(gen_string(s, o));
  }
}

inline Val gen_value_rec(Src& s, const Opts& o, size_t depth, size_t& budget, bool force_container) {
  bool can_nest = depth < o.max_depth && budget > 0;
  unsigned kind = 0;  // 0 scalar, 1 array, 2 object
  if (can_nest) {
    static const unsigned w[] = {5, 2, 3};
    kind = (unsigned)s.pick(w);
    if (force_container && kind == 0) kind = 1 + (unsigned)s.below(2);
  }
  if (kind == 0) return gen_scalar_value(s, o);
  size_t n = s.small_size(o.max_children);
  Val v = kind == 1 ? Val::arr() : Val::obj();
  for (size_t i = 0; i < n && budget > 0; i++) {
    budget--;
    Val c = gen_value_rec(s, o, depth + 1, budget, false);
    if (kind == 1) {
      v.a.push_back(std::move(c));
    } else {
      std::string key = gen_key(s, o);
      if (!o.dup_keys) {
        int guard = 0;
        while (v.find(key) && guard++ < 50) key += (char)('a' + (guard % 26));
        if (v.find(key)) continue;
      } else if (!v.o.empty() && s.chance(1, 6)) {
        key = v.o[s.below(v.o.size())].first;
      }
      v.o.push_back({key, std::move(c)});
    }
  }
  return v;
}

inline Val gen_value(Src& s, const Opts& o) {
  size_t budget = o.node_budget;
  return gen_value_rec(s, o, 0, budget, o.top_container);
}

}  // namespace gen
