// Lockstep executor: generates one operation from the model, applies it to every library world and
// to the model, then compares every observable.
#pragma once
#include "history.hpp"

namespace hist {

struct Target {
  int doc = 0;
  int form = 0;  // 0 JsonDocument API, 1 root JsonVariant, 2 handle, 3 path from document, 4 path from variant handle
  int handle = -1;
  std::vector<Step> path;
};

struct Source {  // copy source: a handle or a whole document
  int doc = 0;
  int handle = -1;  // -1: the document itself
};

class Runner {
 public:
  Src& s;
  cs::Ctx& ctx;
  Options opt;
  Model m;
  std::vector<std::unique_ptr<World>> worlds;
  Stats st;
  std::string log;  // human rendering of the history
  bool known_alias = false;

  Runner(Src& src, cs::Ctx& c, const Options& o) : s(src), ctx(c), opt(o) {}

  void init(const std::vector<int>& policies = {-1}) {
#if !ARDUINOJSON_USE_LONG_LONG
    gen::clamp_int32() = true;
#endif
    m.docs.resize(opt.ndocs);
    for (size_t d = 0; d < opt.ndocs; d++) {
      m.docs[d].root = Val::null();
      m.docs[d].root.id = m.fresh();
      m.docs[d].ledger = (int)d;
    }
    for (int p : policies) {
      std::unique_ptr<World> w(new World);
      w->policy = p;
      for (size_t d = 0; d < opt.ndocs; d++) {
        w->ledgers.emplace_back(new lib::Ledger);
        w->docs.emplace_back(new JsonDocument(w->ledgers.back().get()));
        World* wp = w.get();
        w->ledgers.back()->on_allocate = [wp](size_t) {
          // "released slots are reused before a new pool is requested": when the pool count of the
          // watched document has grown, this allocation is the new pool's block
          if (!wp->watch) return;
          size_t now = lib::Inspector::pool_count(*wp->watch);
          if (now > wp->watch_pools) {
            wp->watch_pools = now;
            wp->pool_requests++;
            if (!lib::Inspector::free_list_empty(*wp->watch) && wp->watch_error.empty())
              wp->watch_error = "a new pool was requested while released slots were still on the free list";
            if (!lib::Inspector::previous_pool_full(*wp->watch) && wp->watch_error.empty())
              wp->watch_error = "a new pool was requested while the last pool still had unused slots";
          }
        };
      }
      worlds.push_back(std::move(w));
    }
  }

  // ---------------------------------------------------------------- model navigation
  Val* base_node(const Target& t) {
    if (t.form == 2 || t.form == 4) return find_id(m.docs[t.doc].root, m.handles[(size_t)t.handle].id);
    return &m.docs[t.doc].root;
  }
  // follow the path; with create, apply the library's path-creation semantics to the model
  Val* resolve(const Target& t, bool create) {
    Val* n = base_node(t);
    for (auto& st_ : t.path) {
      if (!n) return nullptr;
      n = child(*n, st_, create);
    }
    return n;
  }
  Val* child(Val& n, const Step& st_, bool create) {
    if (st_.is_index) {
      if (n.k == Val::Null && create) {
        uint64_t id = n.id;
        n = Val::arr();
        n.id = id;
      }
      if (n.k != Val::Arr) return nullptr;
      if (st_.index < n.a.size()) return &n.a[st_.index];
      if (!create) return nullptr;
      while (n.a.size() <= st_.index) {
        Val e = Val::null();
        e.id = m.fresh();
        n.a.push_back(e);
      }
      return &n.a[st_.index];
    }
    if (n.k == Val::Null && create) {
      uint64_t id = n.id;
      n = Val::obj();
      n.id = id;
    }
    if (n.k != Val::Obj) return nullptr;
    if (Val* c = n.find(st_.key)) return c;
    if (!create) return nullptr;
    Val e = Val::null();
    e.id = m.fresh();
    n.o.push_back({st_.key, e});
    return &n.o.back().second;
  }
  // deepest existing node on the way to the target, and whether the target itself exists
  Val* deepest_existing(const Target& t, bool* exists) {
    Val* n = base_node(t);
    *exists = true;
    for (auto& st_ : t.path) {
      Val* c = nullptr;
      if (st_.is_index) {
        if (n->k == Val::Arr && st_.index < n->a.size()) c = &n->a[st_.index];
      } else if (n->k == Val::Obj) {
        c = n->find(st_.key);
      }
      if (!c) {
        *exists = false;
        return n;
      }
      n = c;
    }
    return n;
  }
  const Val* source_node(const Source& src) {
    if (src.handle < 0) return &m.docs[src.doc].root;
    return find_id(m.docs[src.doc].root, m.handles[(size_t)src.handle].id);
  }
  bool alias_overlap(const Target& t, const Source& src) {
    if (t.doc != src.doc) return false;
    const Val* sn = source_node(src);
    if (!sn) return false;
    bool exists = false;
    Val* d = deepest_existing(t, &exists);
    if (!d) return false;
    // new destination under D: the path is created inside the source iff src is D or an ancestor of D
    if (!exists) return contains_id(*sn, d->id);
    if (!(sn->is_container() || sn->k == Val::Str || sn->k == Val::Raw)) return false;
    return contains_id(*d, sn->id) || contains_id(*sn, d->id);
  }

  // add(src): the new element is linked after the copy, so only the creation of the array itself
  // (a null or not yet existing target inside the source) can be seen by the copy
  bool alias_overlap_add(const Target& t, const Source& src) {
    if (t.doc != src.doc) return false;
    const Val* sn = source_node(src);
    if (!sn) return false;
    bool exists = false;
    Val* d = deepest_existing(t, &exists);
    if (!d) return false;
    if (exists && d->k != Val::Null) return false;
    return contains_id(*sn, d->id);
  }

  std::vector<int> live_handles(int doc, int type_mask = 7) {
    std::vector<int> r;
    for (size_t i = 0; i < m.handles.size(); i++)
      if ((doc < 0 || m.handles[i].doc == doc) && m.handle_live(m.handles[i]) && (type_mask & (1 << m.handles[i].type))) r.push_back((int)i);
    return r;
  }
  void bump(int doc) {
    m.docs[(size_t)doc].epoch++;
    st.doc_moves++;
  }
  // KF shrink_burns_pool_ids: every shrinkToFit() gives up the unused slot ids of the last pool
  bool shrink_allowed(int doc) {
    if (opt.max_shrinks < 0) return true;
    if ((long)m.docs[(size_t)doc].shrinks < opt.max_shrinks) return true;
    ctx.known("shrink_burns_pool_ids");
    return false;
  }
  size_t doc_nodes(int doc) { return m.docs[(size_t)doc].root.nodes(); }

  // ---------------------------------------------------------------- library navigation
  template <typename F>
  void on_target(World& w, const Target& t, F&& f) {
    JsonDocument& d = *w.docs[(size_t)t.doc];
    w.watch = &d;
    w.watch_pools = lib::Inspector::pool_count(d);
    switch (t.form) {
      case 0:
      case 1: {
        JsonVariant rv = d.as<JsonVariant>();
        f(rv);
        break;
      }
      case 2: f(w.handles[(size_t)t.handle].v); break;
      case 3: with_path(d, t.path, f); break;
      default: with_path(w.handles[(size_t)t.handle].v, t.path, f);
    }
  }
  JsonVariantConst lib_source(World& w, const Source& src) {
    if (src.handle < 0) return w.docs[(size_t)src.doc]->as<JsonVariantConst>();
    LHandle& h = w.handles[(size_t)src.handle];
    int type = m.handles[(size_t)src.handle].type;
    if (type == 1) return JsonVariantConst(h.a);
    if (type == 2) return JsonVariantConst(h.o);
    return h.v;
  }
  // library handle for an existing model node: walk down from the root by reads
  // by_iteration: walk with begin()/++ and JsonPair::value() instead of operator[] (references
  // obtained through iterators are references like any other)
  JsonVariant navigate(World& w, int doc, uint64_t id, bool by_iteration = false) {
    JsonVariant cur = w.docs[(size_t)doc]->as<JsonVariant>();
    Val* node = &m.docs[(size_t)doc].root;
    while (node->id != id) {
      bool moved = false;
      if (node->k == Val::Arr) {
        for (size_t i = 0; i < node->a.size(); i++)
          if (contains_id(node->a[i], id)) {
            if (by_iteration) {
              JsonArray arr = cur.as<JsonArray>();
              JsonArray::iterator it = arr.begin();
              for (size_t k = 0; k < i && it != arr.end(); k++) ++it;
              cur = it != arr.end() ? JsonVariant(*it) : JsonVariant();
            } else
            cur = cur[i].as<JsonVariant>();
            node = &node->a[i];
            moved = true;
            break;
          }
      } else if (node->k == Val::Obj) {
        size_t member_index = 0;
        for (auto& kv : node->o) {
          member_index++;
          if (contains_id(kv.second, id)) {
            if (by_iteration) {
              JsonObject obj = cur.as<JsonObject>();
              JsonObject::iterator it = obj.begin();
              for (size_t k = 1; k < member_index && it != obj.end(); k++) ++it;
              cur = it != obj.end() ? it->value() : JsonVariant();
            } else
            cur = cur[JsonString(kv.first.data(), kv.first.size(), JsonString::Copied)].as<JsonVariant>();
            node = &kv.second;
            moved = true;
            break;
          }
        }
      }
      if (!moved) return JsonVariant();
    }
    return cur;
  }
  void register_handle(int doc, uint64_t id, int type, const std::function<LHandle(World&)>& make) {
    MHandle h{doc, id, type, m.docs[(size_t)doc].epoch, 0};
    m.handles.push_back(h);
    for (auto& w : worlds) w->handles.push_back(make(*w));
  }

  // ---------------------------------------------------------------- target generation
  Step gen_step(Val* at) {
    Step st_;
    bool want_index;
    if (at && at->k == Val::Arr) want_index = !s.chance(1, 8);
    else if (at && at->k == Val::Obj) want_index = s.chance(1, 8);
    else want_index = s.coin();
    st_.is_index = want_index;
    if (want_index) {
      size_t n = at && at->k == Val::Arr ? at->a.size() : 0;
      st_.index = (size_t)s.below(n + (opt.reduced_alphabet ? 2 : 3));  // existing, the end, beyond the end
    } else {
      if (at && at->k == Val::Obj && !at->o.empty() && s.chance(2, 3)) st_.key = at->o[s.below(at->o.size())].first;
      else st_.key = gen_key(s, opt);
    }
    return st_;
  }
  Target gen_target(int force_doc = -1) {
    Target t;
    t.doc = force_doc >= 0 ? force_doc : (int)s.below(opt.ndocs);
    std::vector<int> hs = live_handles(t.doc, 1);  // JsonVariant handles only
    static const unsigned w[] = {3, 2, 4, 5, 3};
    unsigned form = (unsigned)s.pick(w);
    if ((form == 2 || form == 4) && hs.empty()) form = 3;
    t.form = (int)form;
    if (form == 2 || form == 4) t.handle = hs[s.below(hs.size())];
    if (form == 3 || form == 4) {
      size_t depth = 1 + (size_t)s.below(2);
      Val* at = base_node(t);
      for (size_t i = 0; i < depth; i++) {
        Step st_ = gen_step(at);
        t.path.push_back(st_);
        if (at) {
          Val* nx = nullptr;
          if (st_.is_index) {
            if (at->k == Val::Arr && st_.index < at->a.size()) nx = &at->a[st_.index];
          } else if (at->k == Val::Obj) nx = at->find(st_.key);
          at = nx;
        }
      }
    }
    return t;
  }
  std::string render_target(const Target& t) {
    std::string r = "d" + std::to_string(t.doc);
    switch (t.form) {
      case 0: r += "(doc)"; break;
      case 1: r += ".as<JsonVariant>()"; break;
      case 2: r += ".h" + std::to_string(t.handle); break;
      case 3: r += render_path(t.path); break;
      default: r += ".h" + std::to_string(t.handle) + render_path(t.path);
    }
    return r;
  }


  // ---------------------------------------------------------------- fault mode (C05)
  bool faults = false;              // allocation failures may occur: judge by the failure-shape oracle
  bool op_reported = false;         // the current operation reported a failure (false / unbound / NoMemory)
  bool op_has_channel = false;      // the current operation has a way to report
  int op_doc = -1;                  // document whose allocator serves the current operation
  std::vector<Step> op_hole;        // path (from the root of op_doc) of the value being modified
  bool op_hole_whole = false;       // the whole document is the target
  std::vector<Val> pre_roots;       // model before the operation
  uint64_t refused_before = 0;
  std::vector<bool> overflowed_before;
  unsigned fault_outcomes_b = 0, fault_ops_with_refusal = 0, fault_nonempty_before = 0;

  uint64_t refused_total() {
    uint64_t r = 0;
    for (auto& l : worlds[0]->ledgers) r += l->refused;
    return r;
  }
  void ret_check(bool got, bool expect, const std::string& msg) {
    op_has_channel = true;
    if (!got) op_reported = true;
    if (faults && (refused_total() != refused_before || (op_doc >= 0 && overflowed_before[(size_t)op_doc]))) return;
    if (got != expect) fail("return-value", msg);
  }
  // path from the root of the target's document to the value the operation modifies
  void set_hole(const Target& t, const Step* extra = nullptr, bool append = false) {
    op_doc = t.doc;
    op_hole.clear();
    op_hole_whole = false;
    if (t.form == 0 || (t.form == 1 && !extra && !append)) {
      op_hole_whole = t.form == 0 || t.path.empty();
    }
    if (t.form == 2 || t.form == 4) {
      uint64_t id = m.handles[(size_t)t.handle].id;
      if (!path_to_id(m.docs[(size_t)t.doc].root, id, op_hole)) op_hole_whole = true;
    }
    for (auto& st_ : t.path) op_hole.push_back(st_);
    if (extra) op_hole.push_back(*extra);
    if (append) {
      // the new element of add(): index = current size of the target (when it is an array)
      Val* n = resolve(t, false);
      Step st_{true, n && n->k == Val::Arr ? n->a.size() : 0, ""};
      op_hole.push_back(st_);
    }
    if (op_hole.empty()) op_hole_whole = true;
  }
  static bool path_to_id(const Val& v, uint64_t id, std::vector<Step>& out) {
    if (v.id == id) return true;
    if (v.k == Val::Arr)
      for (size_t i = 0; i < v.a.size(); i++) {
        out.push_back(Step{true, i, ""});
        if (path_to_id(v.a[i], id, out)) return true;
        out.pop_back();
      }
    if (v.k == Val::Obj)
      for (auto& kv : v.o) {
        out.push_back(Step{false, 0, kv.first});
        if (path_to_id(kv.second, id, out)) return true;
        out.pop_back();
      }
    return false;
  }
  // every value outside the path being modified is unchanged
  static bool eq_outside(const Val& pre, const Val& got, const std::vector<Step>& path, size_t i, std::string* why) {
    if (i == path.size()) return true;
    const Step& st_ = path[i];
    Val nul = Val::null();
    if (st_.is_index) {
      if (pre.k == Val::Null) {
        if (got.k == Val::Null) return true;
        if (got.k != Val::Arr || got.a.size() > st_.index + 1) return *why = "a null value on the path became something else than a padded array", false;
        for (size_t j = 0; j < got.a.size() && j < st_.index; j++)
          if (got.a[j].k != Val::Null) return *why = "padding element is not null", false;
        return got.a.size() == st_.index + 1 ? eq_outside(nul, got.a[st_.index], path, i + 1, why) : true;
      }
      if (pre.k != Val::Arr) return ref::same(pre, got, ref::num_exact, why);
      if (got.k != Val::Arr) return *why = "an array on the path is no longer an array", false;
      if (st_.index < pre.a.size()) {
        if (got.a.size() != pre.a.size()) return *why = "array size changed although the element existed", false;
      } else if (got.a.size() < pre.a.size() || got.a.size() > st_.index + 1) return *why = "array size outside [old size, index+1]", false;
      for (size_t j = 0; j < pre.a.size(); j++) {
        if (j == st_.index) continue;
        if (!ref::same(pre.a[j], got.a[j], ref::num_exact, why)) return false;
      }
      for (size_t j = pre.a.size(); j < got.a.size() && j < st_.index; j++)
        if (got.a[j].k != Val::Null) return *why = "padding element is not null", false;
      if (st_.index < got.a.size()) return eq_outside(st_.index < pre.a.size() ? pre.a[st_.index] : nul, got.a[st_.index], path, i + 1, why);
      return true;
    }
    if (pre.k == Val::Null) {
      if (got.k == Val::Null) return true;
      if (got.k != Val::Obj || got.o.size() > 1) return *why = "a null value on the path became something else than an object with the new member", false;
      if (got.o.size() == 1) {
        if (got.o[0].first != st_.key) return *why = "unexpected member in a freshly created object", false;
        return eq_outside(nul, got.o[0].second, path, i + 1, why);
      }
      return true;
    }
    if (pre.k != Val::Obj) return ref::same(pre, got, ref::num_exact, why);
    if (got.k != Val::Obj) return *why = "an object on the path is no longer an object", false;
    bool existed = pre.find(st_.key) != nullptr;
    size_t gi = 0;
    for (size_t j = 0; j < pre.o.size(); j++, gi++) {
      if (gi >= got.o.size()) return *why = "a member disappeared", false;
      if (pre.o[j].first != got.o[gi].first) return *why = "member order/keys changed: " + cs::quote_bytes(pre.o[j].first, 30) + " vs " + cs::quote_bytes(got.o[gi].first, 30), false;
      if (existed && pre.o[j].first == st_.key && &pre.o[j].second == pre.find(st_.key)) {
        if (!eq_outside(pre.o[j].second, got.o[gi].second, path, i + 1, why)) return false;
      } else if (!ref::same(pre.o[j].second, got.o[gi].second, ref::num_exact, why)) return false;
    }
    if (gi == got.o.size()) return true;
    if (existed || got.o.size() != gi + 1 || got.o[gi].first != st_.key) return *why = "unexpected extra member", false;
    return eq_outside(nul, got.o[gi].second, path, i + 1, why);
  }
  void begin_op() {
    op_reported = false;
    op_has_channel = false;
    op_doc = -1;
    op_hole.clear();
    op_hole_whole = false;
    if (!faults) return;
    pre_roots.clear();
    overflowed_before.clear();
    for (size_t d = 0; d < opt.ndocs; d++) {
      pre_roots.push_back(m.docs[d].root);
      overflowed_before.push_back(worlds[0]->docs[d]->overflowed());
    }
    refused_before = refused_total();
  }
  // after the operation under a fault plan: model state, or a reported failure shape
  void reconcile() {
    if (!faults) return;
    World& w = *worlds[0];
    bool refused = refused_total() != refused_before;
    if (refused) {
      fault_ops_with_refusal++;
      if (op_doc >= 0 && pre_roots[(size_t)op_doc].k != Val::Null) fault_nonempty_before++;
    }
    for (size_t d = 0; d < opt.ndocs; d++) {
      JsonDocument& doc = *w.docs[d];
      Val got;
      try {
        got = lib::observe(doc.as<JsonVariantConst>(), lib::ObserveOpts{true, 600});
      } catch (lib::ObserveError& e) {
        fail("malformed-after-failure", "d" + std::to_string(d) + ": " + e.what);
      }
      lib::Inspector::Report rep = lib::Inspector::inspect(doc, true, false, false);
      if (!rep.error.empty()) fail("malformed-after-failure", "d" + std::to_string(d) + ": " + rep.error);
      if (refused && (int)d == op_doc && !doc.overflowed())
        fail("failure-not-flagged", "the allocator refused a request during the operation but overflowed() is false on d" + std::to_string(d));
      std::string why;
      if (ref::same(m.docs[d].root, got, ref::num_exact, &why)) continue;  // (A) the operation took full effect
      // (B) failure shape
      bool may_fail = (int)d == op_doc && (refused || overflowed_before[d]);
      if (!may_fail)
        fail("model-mismatch", "d" + std::to_string(d) + " differs from the model although no allocation failed for it: " + why + "\n  model:    " +
                                   ref::render(m.docs[d].root, 400) + "\n  document: " + ref::render(got, 400));
      if (!doc.overflowed()) fail("failure-not-flagged", "d" + std::to_string(d) + " lost the effect of the operation but overflowed() is false");
      if (op_has_channel && !op_reported)
        fail("failure-not-reported", "the operation did not take effect on d" + std::to_string(d) + " but reported success\n  expected: " +
                                         ref::render(m.docs[d].root, 400) + "\n  document: " + ref::render(got, 400));
      if (!op_hole_whole) {
        std::string why2;
        if (!eq_outside(pre_roots[d], got, op_hole, 0, &why2))
          fail("collateral-damage", "a value outside the path being modified changed on d" + std::to_string(d) + ": " + why2 + "\n  before:   " +
                                        ref::render(pre_roots[d], 400) + "\n  document: " + ref::render(got, 400) + "\n  path: " + render_path(op_hole));
      }
      fault_outcomes_b++;
      // re-synchronise the model with the document (all references are given up)
      m.docs[d].root = got;
      m.renumber(m.docs[d].root);
      m.docs[d].epoch++;
    }
  }

  // ---------------------------------------------------------------- verification
  void fail(const std::string& kind, const std::string& msg) {
    ctx.current_rendering = log;
    ctx.fail(kind, msg + "\n(after operation #" + std::to_string(st.ops) + ")");
  }
  void verify(bool deep) {
    for (size_t wi = 0; wi < worlds.size(); wi++) {
      World& w = *worlds[wi];
      std::string wn = worlds.size() > 1 ? " [world " + std::to_string(wi) + " policy " + std::to_string(w.policy) + "]" : "";
      for (size_t d = 0; d < opt.ndocs; d++) {
        JsonDocument& doc = *w.docs[d];
        lib::ObserveOpts oo;
        oo.cross_checks = deep;
        Val got;
        uint64_t calls_before = 0;
        for (auto& l : w.ledgers) calls_before += l->calls;
        try {
          got = lib::observe(doc.as<JsonVariantConst>(), oo);
        } catch (lib::ObserveError& e) {
          fail("observation", "d" + std::to_string(d) + wn + ": " + e.what);
        }
        std::string why;
        if (!ref::same(m.docs[d].root, got, ref::num_exact, &why))
          fail("model-mismatch", "d" + std::to_string(d) + wn + " differs from the model: " + why + "\n  model:    " + ref::render(m.docs[d].root, 500) +
                                     "\n  document: " + ref::render(got, 500));
        if (deep) {
          if (doc.nesting() != m.docs[d].root.nesting()) fail("nesting", "d" + std::to_string(d) + wn + ": nesting() disagrees with the model");
          if (doc.size() != (m.docs[d].root.k == Val::Arr ? m.docs[d].root.a.size() : m.docs[d].root.k == Val::Obj ? m.docs[d].root.o.size() : 0))
            fail("size", "d" + std::to_string(d) + wn + ": size() disagrees with the model");
          Val again = lib::observe(doc.as<JsonVariantConst>(), lib::ObserveOpts{false, 600});
          if (!ref::same(got, again, ref::num_exact)) fail("read-changes-state", "d" + std::to_string(d) + wn + ": two observations differ");
        }
        uint64_t calls_after = 0;
        for (auto& l : w.ledgers) calls_after += l->calls;
        if (calls_after != calls_before) fail("read-calls-allocator", "d" + std::to_string(d) + wn + ": a read-only observation called the allocator");
        if (!faults && doc.overflowed()) fail("overflowed", "d" + std::to_string(d) + wn + ": overflowed() is set although no allocation failed");
        if (opt.inspector) {
          lib::Inspector::Report rep = lib::Inspector::inspect(doc, faults, false, !faults);
          if (!rep.error.empty()) fail("internal-invariant", "d" + std::to_string(d) + wn + ": " + rep.error);
        }
      }
      for (auto& l : w.ledgers)
        if (!l->error.empty()) fail("allocator-discipline", l->error + wn);
      if (!w.watch_error.empty()) fail("pool-requested-too-early", w.watch_error + wn);
      w.watch = nullptr;
      // every live handle still designates its node
      for (size_t i = 0; i < m.handles.size(); i++) {
        MHandle& h = m.handles[i];
        if (!m.handle_live(h)) continue;
        Val* node = find_id(m.docs[(size_t)h.doc].root, h.id);
        LHandle& lh = w.handles[i];
        Val got;
        try {
          if (h.type == 0) got = lib::observe(lh.v, lib::ObserveOpts{false, 600});
          else if (h.type == 1) got = lib::observe(JsonVariantConst(lh.a), lib::ObserveOpts{false, 600});
          else got = lib::observe(JsonVariantConst(lh.o), lib::ObserveOpts{false, 600});
        } catch (lib::ObserveError& e) {
          fail("observation", "handle h" + std::to_string(i) + wn + ": " + e.what);
        }
        std::string why;
        if (!ref::same(*node, got, ref::num_exact, &why))
          fail("reference-invalidated", "handle h" + std::to_string(i) + wn + " no longer designates its value: " + why + "\n  model:  " + ref::render(*node, 300) +
                                            "\n  handle: " + ref::render(got, 300));
      }
    }
    for (auto& h : m.handles)
      if (m.handle_live(h)) {
        h.survived++;
        if (h.survived > st.max_handle_survival) st.max_handle_survival = h.survived;
      }
  }

  // ---------------------------------------------------------------- one operation
  void step() {
    st.ops++;
    // keep documents small: clear one that grew too much
    for (size_t d = 0; d < opt.ndocs; d++)
      if (doc_nodes((int)d) > opt.max_nodes) {
        log += "\n#" + std::to_string(st.ops) + " d" + std::to_string(d) + ".clear()  (size bound)";
        for (auto& w : worlds) w->docs[d]->clear();
        m.make_null(m.docs[d].root);
        m.docs[d].shrinks = 0;
        bump((int)d);
        verify(false);
        return;
      }
    for (auto& w : worlds) w->watch = nullptr;
    begin_op();
    static const unsigned w_full[] = {14, 6, 10, 6, 12, 10, 8, 6, 8, 4, 9, 5, 5, 6, 5, 5, 4};
    static const unsigned w_red[] = {10, 5, 8, 4, 8, 8, 8, 6, 0, 4, 6, 3, 0, 3, 0, 3, 0};
    unsigned op = (unsigned)(opt.reduced_alphabet ? s.pick(w_red) : s.pick(w_full));
    if (!opt.doc_level_ops && op == 13) op = 0;
    if (!opt.deserialize_ops && op == 14) op = 2;
    switch (op) {
      case 0: op_set(); break;
      case 1: op_to(); break;
      case 2: op_add(); break;
      case 3: op_add_new(); break;
      case 4: op_member_set(); break;
      case 5: op_elem_set(); break;
      case 6: op_remove(); break;
      case 7: op_clear(); break;
      case 8: op_typed_handle(); break;
      case 9: op_acquire(); break;
      case 10: op_copy(); break;
      case 11: op_add_copy(); break;
      case 12: op_member_copy(); break;
      case 13: op_doc_level(); break;
      case 14: op_deserialize(); break;
      case 15:
        if (s.coin()) op_read_only();
        else op_no_such_key();
        break;
      default: op_copy_array(); break;
    }
    reconcile();
    verify(s.chance(1, 4));
  }

  void note(const std::string& text) {
    log += "\n#" + std::to_string(st.ops) + " " + text;
    static const bool trace = getenv("VERIF_TRACE") != nullptr;
    if (trace) fprintf(stderr, "#%u %s\n", st.ops, text.c_str());
  }

  void after_insert() {
    if (st.removed_once) st.inserts_after_removal++;
  }

  // set() reports exactly for bool/integer/float sources; for the other sources (void converters)
  // it reports !overflowed(), whatever the destination
  static bool exact_return(const Scalar& sc) {
    return sc.k == Scalar::BOOL || sc.k == Scalar::INT || sc.k == Scalar::FLT32 || sc.k == Scalar::FLT64;
  }

  // target.set(scalar)
  void op_set() {
    Target t = gen_target();
    Scalar sc = gen_scalar(s, opt);
    do_set(t, sc);
  }
  void do_set(const Target& t, const Scalar& sc) {
    set_hole(t);
    bool assign_op = sc.assign;
    if (assign_op) st.assign_ops++;
    note(render_target(t) + (assign_op && (t.form == 0 || t.form >= 3) ? " = (" : ".set(") + render_scalar(sc) + ")");
    if (t.form >= 3) st.proxy_ops++;
    if (t.form == 2 || t.form == 4) st.handle_ops++;
    Val* n = t.form == 0 ? &m.docs[(size_t)t.doc].root : resolve(t, true);
    bool expect = n != nullptr || !exact_return(sc);
    for (auto& w : worlds) {
      bool r = false;
      if (t.form == 0) {
        r = lib_set(*w->docs[(size_t)t.doc], sc, *w);
      } else {
        on_target(*w, t, [&](auto&& x) { r = lib_set(x, sc, *w); });
      }
      // operator= returns no status: overflowed() is then the only report
      if (!(sc.assign && (t.form == 0 || t.form >= 3))) ret_check(r, expect, "set() returned " + std::string(r ? "true" : "false") + ", the model expects " + (expect ? "true" : "false"));
    }
    if (t.form == 0) {
      m.make_null(m.docs[(size_t)t.doc].root);
      m.docs[(size_t)t.doc].shrinks = 0;
      bump(t.doc);
      n = &m.docs[(size_t)t.doc].root;
    }
    if (n) m.assign(*n, sc.v);
    after_insert();
  }

  // target.to<JsonArray/JsonObject/JsonVariant>()
  void op_to() {
    Target t = gen_target();
    int kind = (int)s.below(3);  // 0 variant, 1 array, 2 object
    do_to(t, kind);
  }
  void do_to(const Target& t, int kind) {
    set_hole(t);
    note(render_target(t) + ".to<" + (kind == 0 ? "JsonVariant" : kind == 1 ? "JsonArray" : "JsonObject") + ">() -> h" + std::to_string(m.handles.size()));
    if (t.form == 0) {
      m.make_null(m.docs[(size_t)t.doc].root);
      m.docs[(size_t)t.doc].shrinks = 0;
      bump(t.doc);
    }
    Val* n = t.form == 0 ? &m.docs[(size_t)t.doc].root : resolve(t, true);
    if (n) {
      uint64_t id = n->id;
      *n = kind == 0 ? Val::null() : kind == 1 ? Val::arr() : Val::obj();
      n->id = id;
    }
    std::vector<LHandle> got;
    for (auto& w : worlds) {
      LHandle lh;
      auto doit = [&](auto&& x) {
        if (kind == 0) lh.v = x.template to<JsonVariant>();
        else if (kind == 1) lh.a = x.template to<JsonArray>();
        else lh.o = x.template to<JsonObject>();
      };
      if (t.form == 0) doit(*w->docs[(size_t)t.doc]);
      else on_target(*w, t, doit);
      bool bound = kind == 0 ? !lh.v.isUnbound() : kind == 1 ? !lh.a.isNull() : !lh.o.isNull();
      ret_check(bound, (n != nullptr), std::string("to<>() returned a ") + (bound ? "bound" : "null") + " reference, the model expects the opposite");
      got.push_back(lh);
    }
    if (n) {
      size_t wi = 0;
      register_handle(t.doc, n->id, kind, [&](World&) { return got[wi++]; });
    }
    after_insert();
  }

  // target.add(scalar)
  void op_add() {
    Target t = gen_target();
    Scalar sc = gen_scalar(s, opt);
    do_add(t, sc);
  }
  void do_add(const Target& t, const Scalar& sc) {
    set_hole(t);
    note(render_target(t) + ".add(" + render_scalar(sc) + ")");
    Val* n = resolve(t, true);
    bool expect = false;
    if (n && (n->k == Val::Null || n->k == Val::Arr)) {
      if (n->k == Val::Null) {
        uint64_t id = n->id;
        *n = Val::arr();
        n->id = id;
      }
      Val e = sc.v;
      e.id = m.fresh();
      n->a.push_back(e);
      expect = true;
    }
    for (auto& w : worlds) {
      bool r = false;
      if (t.form == 0) r = lib_add(*w->docs[(size_t)t.doc], sc, *w);
      else on_target(*w, t, [&](auto&& x) { r = lib_add(x, sc, *w); });
      ret_check(r, expect, "add() returned " + std::string(r ? "true" : "false") + ", the model expects the opposite");
    }
    after_insert();
  }

  // target.add<T>()
  void op_add_new() {
    Target t = gen_target();
    int kind = (int)s.below(3);
    do_add_new(t, kind);
  }
  void do_add_new(const Target& t, int kind) {
    set_hole(t);
    note(render_target(t) + ".add<" + (kind == 0 ? "JsonVariant" : kind == 1 ? "JsonArray" : "JsonObject") + ">() -> h" + std::to_string(m.handles.size()));
    Val* n = resolve(t, true);
    Val* created = nullptr;
    if (n && (n->k == Val::Null || n->k == Val::Arr)) {
      if (n->k == Val::Null) {
        uint64_t id = n->id;
        *n = Val::arr();
        n->id = id;
      }
      Val e = kind == 0 ? Val::null() : kind == 1 ? Val::arr() : Val::obj();
      e.id = m.fresh();
      n->a.push_back(e);
      created = &n->a.back();
    }
    std::vector<LHandle> got;
    for (auto& w : worlds) {
      LHandle lh;
      auto doit = [&](auto&& x) {
        if (kind == 0) lh.v = x.template add<JsonVariant>();
        else if (kind == 1) lh.a = x.template add<JsonArray>();
        else lh.o = x.template add<JsonObject>();
      };
      if (t.form == 0) doit(*w->docs[(size_t)t.doc]);
      else on_target(*w, t, doit);
      bool bound = kind == 0 ? !lh.v.isUnbound() : kind == 1 ? !lh.a.isNull() : !lh.o.isNull();
      ret_check(bound, (created != nullptr), std::string("add<T>() returned a ") + (bound ? "bound" : "null") + " reference, the model expects the opposite");
      got.push_back(lh);
    }
    if (created) {
      size_t wi = 0;
      register_handle(t.doc, created->id, kind, [&](World&) { return got[wi++]; });
    }
    after_insert();
  }

  // target[key] = scalar   (key given through several kinds)
  void op_member_set() {
    Target t = gen_target();
    Val* at = resolve(t, false);
    Step st_;
    st_.is_index = false;
    if (at && at->k == Val::Obj && !at->o.empty() && s.coin()) st_.key = at->o[s.below(at->o.size())].first;
    else st_.key = gen_key(s, opt);
    Scalar sc = gen_scalar(s, opt);
    int keykind = (int)s.below(4);  // std::string, const char* (linked), char*, JsonString
    do_member_set(t, st_, keykind, sc);
  }
  void do_member_set(const Target& t, const Step& st_, int keykind, const Scalar& sc) {
    set_hole(t, &st_);
    if (st_.key.find('\0') != std::string::npos && (keykind == 1 || keykind == 2)) keykind = 0;
    note(render_target(t) + "[" + cs::quote_bytes(st_.key, 30) + "/k" + std::to_string(keykind) + "] = " + render_scalar(sc));
    Val* n = resolve(t, true);
    Val* c = n ? child(*n, st_, true) : nullptr;
    bool expect = c != nullptr || !exact_return(sc);
    if (c) m.assign(*c, sc.v);
    for (auto& w : worlds) {
      bool r = false;
      auto doit = [&](auto&& x) {
        int kk = w->policy >= 0 ? (w->policy == SK_LINKED || w->policy == SK_JSTR_LINKED ? 1 : w->policy == SK_CHARPTR ? 2 : w->policy == SK_JSTR_COPIED ? 3 : w->policy >= 7 ? w->policy : 0) : keykind;
        if (st_.key.find('\0') != std::string::npos && (kk == 1 || kk == 2 || kk >= 7)) kk = 0;
        switch (kk) {
          case 0: {
            std::string tmp = st_.key;
            r = lib_set(x[tmp], sc, *w);
            for (auto& ch : tmp) ch = '#';
            break;
          }
          case 1: r = lib_set(x[w->arena.keep(st_.key)], sc, *w); break;
          case 2: {
            std::string tmp = st_.key;
            r = lib_set(x[const_cast<char*>(tmp.c_str())], sc, *w);
            for (auto& ch : tmp) ch = '#';
            break;
          }
#if ARDUINOJSON_ENABLE_ARDUINO_STRING
          case 7: {
            ::String tmp(st_.key.c_str());
            r = lib_set(x[tmp], sc, *w);
            break;
          }
#endif
#if ARDUINOJSON_ENABLE_PROGMEM
          case 8: {
            std::string tmp = st_.key;
            r = lib_set(x[reinterpret_cast<const __FlashStringHelper*>(tmp.c_str() + 42)], sc, *w);
            for (auto& ch : tmp) ch = '#';
            break;
          }
#endif
          default: {
            std::string tmp = st_.key;
            r = lib_set(x[JsonString(tmp.data(), tmp.size(), JsonString::Copied)], sc, *w);
            for (auto& ch : tmp) ch = '#';
          }
        }
      };
      if (t.form == 0) doit(*w->docs[(size_t)t.doc]);
      else on_target(*w, t, doit);
      if (!sc.assign)  // operator= on the member proxy returns no status
        ret_check(r, expect, "member assignment returned " + std::string(r ? "true" : "false") + ", the model expects the opposite");
    }
    after_insert();
  }

  // target[index] = scalar (incl. beyond the end)
  void op_elem_set() {
    Target t = gen_target();
    Val* at = resolve(t, false);
    Step st_;
    st_.is_index = true;
    size_t n0 = at && at->k == Val::Arr ? at->a.size() : 0;
    st_.index = (size_t)s.below(n0 + 3);
    Scalar sc = gen_scalar(s, opt);
    do_elem_set(t, st_, sc);
  }
  void do_elem_set(const Target& t, const Step& st_, const Scalar& sc) {
    set_hole(t, &st_);
    note(render_target(t) + "[" + std::to_string(st_.index) + "] = " + render_scalar(sc));
    Val* n = resolve(t, true);
    Val* c = n ? child(*n, st_, true) : nullptr;
    bool expect = c != nullptr || !exact_return(sc);
    if (c) m.assign(*c, sc.v);
    for (auto& w : worlds) {
      bool r = false;
      auto doit = [&](auto&& x) { r = lib_set(x[st_.index], sc, *w); };
      if (t.form == 0) doit(*w->docs[(size_t)t.doc]);
      else on_target(*w, t, doit);
      if (!sc.assign)
        ret_check(r, expect, "element assignment returned " + std::string(r ? "true" : "false") + ", the model expects the opposite");
    }
    after_insert();
  }

  // target.remove(index | key)
  void op_remove() {
    Target t = gen_target();
    Val* n = resolve(t, false);
    bool by_index = n && n->k == Val::Arr ? !s.chance(1, 6) : (n && n->k == Val::Obj ? s.chance(1, 6) : s.coin());
    size_t index = 0;
    std::string key;
    if (by_index) index = (size_t)s.below((n && n->k == Val::Arr ? n->a.size() : 0) + 2);
    else if (n && n->k == Val::Obj && !n->o.empty() && s.chance(3, 4)) key = n->o[s.below(n->o.size())].first;
    else key = gen_key(s, opt);
    do_remove(t, by_index, index, key, s.coin());
  }
  void do_remove(const Target& t, bool by_index, size_t index, const std::string& key, bool cstr_key) {
    set_hole(t);
    Val* n = resolve(t, false);
    note(render_target(t) + ".remove(" + (by_index ? std::to_string(index) : cs::quote_bytes(key, 30)) + ")");
    if (n) {
      if (by_index && n->k == Val::Arr && index < n->a.size()) {
        note_string_removal(n->a[index]);
        n->a.erase(n->a.begin() + (long)index);
        st.removals++;
        st.removed_once = true;
      } else if (!by_index && n->k == Val::Obj) {
        for (size_t i = 0; i < n->o.size(); i++)
          if (n->o[i].first == key) {
            note_string_removal(n->o[i].second);
            n->o.erase(n->o.begin() + (long)i);
            st.removals++;
            st.removed_once = true;
            break;
          }
      }
    }
    account_shared_strings(t.doc);
    bool via_variant = !cstr_key && key.find('\0') == std::string::npos && (index + key.size()) % 5 == 0;
    for (auto& w : worlds) {
      auto doit = [&](auto&& x) {
        if (via_variant) {  // remove(variant): an index or a key held by another document
          JsonDocument keydoc;
          if (by_index) keydoc.set(index);
          else keydoc.set(key);
          x.remove(keydoc.as<JsonVariantConst>());
        } else if (by_index) x.remove(index);
        else {
          std::string tmp = key;
          if (key.find('\0') == std::string::npos && cstr_key) x.remove(tmp.c_str());
          else x.remove(tmp);
        }
      };
      if (t.form == 0) doit(*w->docs[(size_t)t.doc]);
      else on_target(*w, t, doit);
    }
  }
  void note_string_removal(const Val& removed) {
    // a removed string whose text is also held elsewhere: sharing must stay invisible
    std::set<std::string> gone;
    removed.walk([&](const Val& x) {
      if (x.k == Val::Str) gone.insert(x.s);
      if (x.k == Val::Obj)
        for (auto& kv : x.o) gone.insert(kv.first);
    });
    if (gone.empty()) return;
    pending_removed_strings = gone;
  }
  std::set<std::string> pending_removed_strings;
  void account_shared_strings(int doc) {
    if (pending_removed_strings.empty()) return;
    bool shared = false;
    m.docs[(size_t)doc].root.walk([&](const Val& x) {
      if (x.k == Val::Str && pending_removed_strings.count(x.s)) shared = true;
      if (x.k == Val::Obj)
        for (auto& kv : x.o)
          if (pending_removed_strings.count(kv.first)) shared = true;
    });
    if (shared) st.shared_string_removed++;
    pending_removed_strings.clear();
  }

  // target.clear()
  void op_clear() {
    Target t = gen_target();
    do_clear(t);
  }
  void do_clear(const Target& t) {
    set_hole(t);
    note(render_target(t) + ".clear()");
    if (t.form == 0) {
      for (auto& w : worlds) w->docs[(size_t)t.doc]->clear();
      m.make_null(m.docs[(size_t)t.doc].root);
      m.docs[(size_t)t.doc].shrinks = 0;
      bump(t.doc);
      return;
    }
    Val* n = resolve(t, true);
    if (n) m.make_null(*n);
    for (auto& w : worlds) on_target(*w, t, [&](auto&& x) { x.clear(); });
  }

  // operations through JsonArray / JsonObject handles
  void op_typed_handle() {
    std::vector<int> hs = live_handles(-1, 6);
    if (hs.empty()) {
      op_add_new();
      return;
    }
    int hi = hs[s.below(hs.size())];
    MHandle& h = m.handles[(size_t)hi];
    Val* n = find_id(m.docs[(size_t)h.doc].root, h.id);
    st.handle_ops++;
    {
      Target ht;
      ht.doc = h.doc;
      ht.form = 2;
      ht.handle = hi;
      set_hole(ht);
    }
    if (h.type == 2 && s.chance(1, 8)) {
      // JsonObject::set() from a source that is no object (unbound handle, or a value of another
      // kind viewed as one): returns false and leaves the target as it is. (JsonArray::set() of a
      // null source empties the array and returns true; the property does not say which of the two
      // is meant, so the array form is not generated.)
      int vi = -1;
      for (int i : live_handles(-1, 1)) vi = i;  // some JsonVariant handle, whatever it holds
      const Val* vn = vi >= 0 ? find_id(m.docs[(size_t)m.handles[(size_t)vi].doc].root, m.handles[(size_t)vi].id) : nullptr;
      bool use_variant = vn && vn->k != (h.type == 1 ? Val::Arr : Val::Obj) && s.coin();
      note("h" + std::to_string(hi) + (h.type == 1 ? "(array)" : "(object)") + ".set(" + (use_variant ? "h" + std::to_string(vi) + " viewed as that kind" : "unbound source") + ")");
      for (auto& w : worlds) {
        bool r;
        if (h.type == 1) r = w->handles[(size_t)hi].a.set(use_variant ? w->handles[(size_t)vi].v.as<JsonArrayConst>() : JsonArrayConst());
        else r = w->handles[(size_t)hi].o.set(use_variant ? w->handles[(size_t)vi].v.as<JsonObjectConst>() : JsonObjectConst());
        ret_check(r, false, "container set() from a null source returned true");
      }
      st.no_such_key_ops++;
      return;
    }
    if (s.chance(1, 3)) {
      // JsonArray::set(JsonArrayConst) / JsonObject::set(JsonObjectConst) from a source of the same kind
      std::vector<int> srcs;
      for (int i : live_handles(-1, 7)) {
        const Val* sn = find_id(m.docs[(size_t)m.handles[(size_t)i].doc].root, m.handles[(size_t)i].id);
        if (sn && sn->k == (h.type == 1 ? Val::Arr : Val::Obj)) srcs.push_back(i);
      }
      if (!srcs.empty()) {
        int si = srcs[s.below(srcs.size())];
        MHandle& sh = m.handles[(size_t)si];
        const Val* sn = find_id(m.docs[(size_t)sh.doc].root, sh.id);
        bool overlap = sh.doc == h.doc && (contains_id(*n, sn->id) || contains_id(*sn, n->id));
        if (overlap && !opt.allow_alias_ops) {
          st.alias_excluded++;
          ctx.known("alias_overlap");
          return;
        }
        note("h" + std::to_string(hi) + (h.type == 1 ? "(array)" : "(object)") + ".set(h" + std::to_string(si) + ")");
        st.copies++;
        st.container_sets++;
        Val snapshot = *sn;
        uint64_t id = n->id;
        *n = snapshot;
        n->id = id;
        m.renumber_children(*n);
        for (auto& w : worlds) {
          LHandle& dl = w->handles[(size_t)hi];
          LHandle& sl = w->handles[(size_t)si];
          bool r;
          if (h.type == 1) {
            JsonArrayConst src = sh.type == 1 ? JsonArrayConst(sl.a) : sl.v.as<JsonArrayConst>();
            r = dl.a.set(src);
          } else {
            JsonObjectConst src = sh.type == 2 ? JsonObjectConst(sl.o) : sl.v.as<JsonObjectConst>();
            r = dl.o.set(src);
          }
          ret_check(r, true, "container set() returned false");
        }
        after_insert();
        return;
      }
    }
    if (h.type == 1) {
      switch (s.below(6)) {
        case 0: {
          Scalar sc = gen_scalar(s, opt);
          note("h" + std::to_string(hi) + "(array).add(" + render_scalar(sc) + ")");
          Val e = sc.v;
          e.id = m.fresh();
          n->a.push_back(e);
          for (auto& w : worlds)
            ret_check(lib_add(w->handles[(size_t)hi].a, sc, *w), true, "JsonArray::add returned false");
          after_insert();
          break;
        }
        case 1: {
          size_t idx = (size_t)s.below(n->a.size() + 2);
          Scalar sc = gen_scalar(s, opt);
          note("h" + std::to_string(hi) + "(array)[" + std::to_string(idx) + "] = " + render_scalar(sc));
          Step st_{true, idx, ""};
          Val* c = child(*n, st_, true);
          m.assign(*c, sc.v);
          for (auto& w : worlds)
            { bool r_ = lib_set(w->handles[(size_t)hi].a[idx], sc, *w); if (!sc.assign) ret_check(r_, true, "JsonArray element assignment returned false"); }
          after_insert();
          break;
        }
        case 2: {
          size_t idx = (size_t)s.below(n->a.size() + 1);
          note("h" + std::to_string(hi) + "(array).remove(" + std::to_string(idx) + ")");
          if (idx < n->a.size()) {
            n->a.erase(n->a.begin() + (long)idx);
            st.removals++;
            st.removed_once = true;
          }
          for (auto& w : worlds) w->handles[(size_t)hi].a.remove(idx);
          break;
        }
        case 3: {
          if (n->a.empty()) break;
          size_t idx = (size_t)s.below(n->a.size());
          note("h" + std::to_string(hi) + "(array).remove(begin()+" + std::to_string(idx) + ")");
          n->a.erase(n->a.begin() + (long)idx);
          st.removals++;
          st.removed_once = true;
          for (auto& w : worlds) {
            JsonArray a = w->handles[(size_t)hi].a;
            JsonArray::iterator it = a.begin();
            for (size_t i = 0; i < idx; i++) ++it;
            a.remove(it);
          }
          break;
        }
        case 4: {
          note("h" + std::to_string(hi) + "(array).clear()");
          n->a.clear();
          for (auto& w : worlds) w->handles[(size_t)hi].a.clear();
          break;
        }
        default: {
          int kind = (int)s.below(3);
          note("h" + std::to_string(hi) + "(array).add<" + std::to_string(kind) + ">() -> h" + std::to_string(m.handles.size()));
          Val e = kind == 0 ? Val::null() : kind == 1 ? Val::arr() : Val::obj();
          e.id = m.fresh();
          n->a.push_back(e);
          uint64_t id = e.id;
          int doc = h.doc;
          std::vector<LHandle> got;
          for (auto& w : worlds) {
            LHandle lh;
            JsonArray a = w->handles[(size_t)hi].a;
            if (kind == 0) lh.v = a.add<JsonVariant>();
            else if (kind == 1) lh.a = a.add<JsonArray>();
            else lh.o = a.add<JsonObject>();
            got.push_back(lh);
          }
          size_t wi = 0;
          register_handle(doc, id, kind, [&](World&) { return got[wi++]; });
          after_insert();
        }
      }
    } else {
      switch (s.below(4)) {
        case 0: {
          std::string key = !n->o.empty() && s.coin() ? n->o[s.below(n->o.size())].first : gen_key(s, opt);
          Scalar sc = gen_scalar(s, opt);
          note("h" + std::to_string(hi) + "(object)[" + cs::quote_bytes(key, 30) + "] = " + render_scalar(sc));
          Step st_{false, 0, key};
          Val* c = child(*n, st_, true);
          m.assign(*c, sc.v);
          for (auto& w : worlds) {
            std::string tmp = key;
            { bool r_ = lib_set(w->handles[(size_t)hi].o[tmp], sc, *w); if (!sc.assign) ret_check(r_, true, "JsonObject member assignment returned false"); }
          }
          after_insert();
          break;
        }
        case 1: {
          std::string key = !n->o.empty() && s.chance(3, 4) ? n->o[s.below(n->o.size())].first : gen_key(s, opt);
          note("h" + std::to_string(hi) + "(object).remove(" + cs::quote_bytes(key, 30) + ")");
          for (size_t i = 0; i < n->o.size(); i++)
            if (n->o[i].first == key) {
              n->o.erase(n->o.begin() + (long)i);
              st.removals++;
              st.removed_once = true;
              break;
            }
          for (auto& w : worlds) {
            std::string tmp = key;
            w->handles[(size_t)hi].o.remove(tmp);
          }
          break;
        }
        case 2: {
          if (n->o.empty()) break;
          size_t idx = (size_t)s.below(n->o.size());
          note("h" + std::to_string(hi) + "(object).remove(begin()+" + std::to_string(idx) + ")");
          n->o.erase(n->o.begin() + (long)idx);
          st.removals++;
          st.removed_once = true;
          for (auto& w : worlds) {
            JsonObject o = w->handles[(size_t)hi].o;
            JsonObject::iterator it = o.begin();
            for (size_t i = 0; i < idx; i++) ++it;
            o.remove(it);
          }
          break;
        }
        default: {
          note("h" + std::to_string(hi) + "(object).clear()");
          n->o.clear();
          for (auto& w : worlds) w->handles[(size_t)hi].o.clear();
        }
      }
    }
  }

  // acquire a handle to an existing value (by reads), or drop one
  void op_acquire() {
    int doc = (int)s.below(opt.ndocs);
    std::vector<uint64_t> ids;
    std::vector<Val::Kind> kinds;
    m.docs[(size_t)doc].root.walk([&](const Val& x) {
      ids.push_back(x.id);
      kinds.push_back(x.k);
    });
    size_t pick = (size_t)s.below(ids.size());
    int type = 0;
    if (kinds[pick] == Val::Arr && s.coin()) type = 1;
    if (kinds[pick] == Val::Obj && s.coin()) type = 2;
    uint64_t id = ids[pick];
    note("h" + std::to_string(m.handles.size()) + " = handle(type " + std::to_string(type) + ") to node " + std::to_string(id) + " of d" + std::to_string(doc));
    bool by_iteration = !opt.reduced_alphabet && s.coin();
    if (by_iteration) st.iterator_handles++;
    register_handle(doc, id, type, [&](World& w) {
      LHandle lh;
      JsonVariant v = navigate(w, doc, id, by_iteration);
      if (v.isUnbound()) fail("navigation", "an existing value cannot be reached by reads");
      if (type == 0) lh.v = v;
      else if (type == 1) lh.a = v.as<JsonArray>();
      else lh.o = v.as<JsonObject>();
      return lh;
    });
  }

  Source gen_source() {
    Source src;
    src.doc = (int)s.below(opt.ndocs);
    std::vector<int> hs = live_handles(src.doc, 7);
    if (!hs.empty() && s.chance(3, 4)) src.handle = hs[s.below(hs.size())];
    return src;
  }
  std::string render_source(const Source& src) { return src.handle < 0 ? "d" + std::to_string(src.doc) : "h" + std::to_string(src.handle); }

  // target.set(source) / target = source
  void op_copy() {
    Target t = gen_target();
    Source src = gen_source();
    do_copy(t, src);
  }
  void do_copy(const Target& t, Source src) {
    set_hole(t);
    if (t.form == 0 && src.doc == t.doc) {  // doc.set(part of itself): the document is cleared first
      if (!opt.allow_alias_ops) {
        st.alias_excluded++;
        ctx.known("alias_overlap");
        src.doc = (t.doc + 1) % (int)opt.ndocs;
        src.handle = -1;
        if (src.doc == t.doc) return;
      }
    } else if (alias_overlap(t, src)) {
      if (!opt.allow_alias_ops) {
        st.alias_excluded++;
        ctx.known("alias_overlap");
        return;
      }
    }
    const Val* sn = source_node(src);
    Val snapshot = *sn;
    note(render_target(t) + ".set(" + render_source(src) + ")");
    st.copies++;
    Val* n;
    if (t.form == 0) {
      m.make_null(m.docs[(size_t)t.doc].root);
      m.docs[(size_t)t.doc].shrinks = 0;
      bump(t.doc);
      n = &m.docs[(size_t)t.doc].root;
    } else n = resolve(t, true);
    bool expect = true;  // set(variant) is a void converter: reports !overflowed()
    if (n) m.assign(*n, snapshot);
    for (auto& w : worlds) {
      JsonVariantConst sv = lib_source(*w, src);
      bool r = false;
      if (t.form == 0) r = w->docs[(size_t)t.doc]->set(sv);
      else on_target(*w, t, [&](auto&& x) { r = x.set(sv); });
      ret_check(r, expect, "set(variant) returned " + std::string(r ? "true" : "false") + ", the model expects the opposite");
    }
    after_insert();
  }

  // target.add(source)
  void op_add_copy() {
    Target t = gen_target();
    Source src = gen_source();
    do_add_copy(t, src);
  }
  void do_add_copy(const Target& t, const Source& src) {
    set_hole(t);
    if (alias_overlap_add(t, src) && !opt.allow_alias_ops) {
      st.alias_excluded++;
      ctx.known("alias_overlap");
      return;
    }
    const Val* sn = source_node(src);
    Val snapshot = *sn;
    note(render_target(t) + ".add(" + render_source(src) + ")");
    st.copies++;
    Val* n = resolve(t, true);
    bool expect = false;
    if (n && (n->k == Val::Null || n->k == Val::Arr)) {
      if (n->k == Val::Null) {
        uint64_t id = n->id;
        *n = Val::arr();
        n->id = id;
      }
      Val e = snapshot;
      m.renumber(e);
      n->a.push_back(e);
      expect = true;
    }
    for (auto& w : worlds) {
      JsonVariantConst sv = lib_source(*w, src);
      bool r = false;
      if (t.form == 0) r = w->docs[(size_t)t.doc]->add(sv);
      else on_target(*w, t, [&](auto&& x) { r = x.add(sv); });
      ret_check(r, expect, "add(variant) returned " + std::string(r ? "true" : "false") + ", the model expects the opposite");
    }
    after_insert();
  }

  // target[key] = source
  void op_member_copy() {
    Target t = gen_target();
    Val* at = resolve(t, false);
    Step st_;
    st_.is_index = s.chance(1, 4);
    if (st_.is_index) st_.index = (size_t)s.below((at && at->k == Val::Arr ? at->a.size() : 0) + 2);
    else if (at && at->k == Val::Obj && !at->o.empty() && s.coin()) st_.key = at->o[s.below(at->o.size())].first;
    else st_.key = gen_key(s, opt);
    Source src = gen_source();
    do_member_copy(t, st_, src);
  }
  void do_member_copy(const Target& t, const Step& st_, const Source& src) {
    set_hole(t, &st_);
    Target full = t;
    if (full.form == 0) full.form = 3;
    if (full.form == 1) full.form = 3;
    if (full.form == 2) full.form = 4;
    full.path.push_back(st_);
    if (alias_overlap(full, src)) {
      if (!opt.allow_alias_ops) {
        st.alias_excluded++;
        ctx.known("alias_overlap");
        return;
      }
    }
    const Val* sn = source_node(src);
    Val snapshot = *sn;
    note(render_target(t) + (st_.is_index ? "[" + std::to_string(st_.index) + "]" : "[" + cs::quote_bytes(st_.key, 30) + "]") + " = " + render_source(src));
    st.copies++;
    Val* n = resolve(t, true);
    Val* c = n ? child(*n, st_, true) : nullptr;
    bool expect = true;
    if (c) m.assign(*c, snapshot);
    for (auto& w : worlds) {
      JsonVariantConst sv = lib_source(*w, src);
      bool r = false;
      auto doit = [&](auto&& x) {
        if (st_.is_index) r = x[st_.index].set(sv);
        else {
          std::string tmp = st_.key;
          r = x[tmp].set(sv);
        }
      };
      if (t.form == 0) doit(*w->docs[(size_t)t.doc]);
      else on_target(*w, t, doit);
      ret_check(r, expect, "member/element copy returned " + std::string(r ? "true" : "false") + ", the model expects the opposite");
    }
    after_insert();
  }

  // document-level: copy/move construct, assign, swap, shrinkToFit
  void op_doc_level() {
    int a = (int)s.below(opt.ndocs), b = (int)s.below(opt.ndocs);
    unsigned which = (unsigned)s.below(7);
    if (opt.ndocs == 1) which = 6;
    if (a == b && which < 6) b = (a + 1) % (int)opt.ndocs;
    do_doc_level(which, a, b);
  }
  void do_doc_level(unsigned which, int a, int b) {
    op_doc = a;
    op_hole_whole = true;
    MDoc &ma = m.docs[(size_t)a], &mb = m.docs[(size_t)b];
    if (which != 6 && ma.ledger != mb.ledger) st.cross_ledger_moves++;
    switch (which) {
      case 0:
        note("d" + std::to_string(a) + " = JsonDocument(d" + std::to_string(b) + ")  (copy-construct)");
        for (auto& w : worlds) w->docs[(size_t)a].reset(new JsonDocument(*w->docs[(size_t)b]));
        m.assign(ma.root, mb.root);
        ma.ledger = mb.ledger;
        ma.default_alloc = mb.default_alloc;
        ma.shrinks = 0;
        bump(a);
        break;
      case 1:
        note("d" + std::to_string(a) + " = JsonDocument(std::move(d" + std::to_string(b) + "))  (move-construct)");
        for (auto& w : worlds) w->docs[(size_t)a].reset(new JsonDocument(std::move(*w->docs[(size_t)b])));
        m.assign(ma.root, mb.root);
        m.make_null(mb.root);
        ma.ledger = mb.ledger;
        ma.default_alloc = mb.default_alloc;
        mb.default_alloc = true;
        ma.shrinks = mb.shrinks;
        mb.shrinks = 0;
        bump(a);
        bump(b);
        break;
      case 2:
        note("d" + std::to_string(a) + " = d" + std::to_string(b) + "  (copy-assign)");
        for (auto& w : worlds) *w->docs[(size_t)a] = *w->docs[(size_t)b];
        m.assign(ma.root, mb.root);
        ma.ledger = mb.ledger;
        ma.default_alloc = mb.default_alloc;
        ma.shrinks = 0;
        bump(a);
        break;
      case 3:
        note("d" + std::to_string(a) + " = std::move(d" + std::to_string(b) + ")  (move-assign)");
        for (auto& w : worlds) *w->docs[(size_t)a] = std::move(*w->docs[(size_t)b]);
        m.assign(ma.root, mb.root);
        m.make_null(mb.root);
        ma.ledger = mb.ledger;
        ma.default_alloc = mb.default_alloc;
        mb.default_alloc = true;
        ma.shrinks = mb.shrinks;
        mb.shrinks = 0;
        bump(a);
        bump(b);
        break;
      case 4: {
        note("swap(d" + std::to_string(a) + ", d" + std::to_string(b) + ")");
        for (auto& w : worlds) swap(*w->docs[(size_t)a], *w->docs[(size_t)b]);
        Val tmp = ma.root;
        m.assign(ma.root, mb.root);
        m.assign(mb.root, tmp);
        std::swap(ma.ledger, mb.ledger);
        std::swap(ma.default_alloc, mb.default_alloc);
        std::swap(ma.shrinks, mb.shrinks);
        bump(a);
        bump(b);
        break;
      }
      case 5: {
        // construct from a variant of another document, on a's current ledger? -> uses the default allocator
        std::vector<int> hs = live_handles(b, 7);
        if (hs.empty()) {
          note("d" + std::to_string(a) + ".set(d" + std::to_string(b) + ")");
          for (auto& w : worlds) w->docs[(size_t)a]->set(*w->docs[(size_t)b]);
          Val snap = mb.root;
          m.assign(ma.root, snap);
          ma.shrinks = 0;
          bump(a);
          break;
        }
        int hi = hs[s.below(hs.size())];
        note("d" + std::to_string(a) + " = JsonDocument(h" + std::to_string(hi) + ", allocator of d" + std::to_string(a) + ")");
        Val snap = *find_id(mb.root, m.handles[(size_t)hi].id);
        for (auto& w : worlds) {
          Source src{b, hi};
          JsonVariantConst sv = lib_source(*w, src);
          Allocator* al = w->docs[(size_t)a]->allocator();
          std::unique_ptr<JsonDocument> nd(new JsonDocument(sv, al));
          w->docs[(size_t)a] = std::move(nd);
        }
        m.assign(ma.root, snap);
        ma.shrinks = 0;
        bump(a);
        break;
      }
      default:
        if (!shrink_allowed(a)) return;
        note("d" + std::to_string(a) + ".shrinkToFit()");
        for (auto& w : worlds) w->docs[(size_t)a]->shrinkToFit();
        ma.shrinks++;
        bump(a);
        st.doc_moves--;
    }
  }

  // deserializeJson / deserializeMsgPack into a document, a handle or a proxy
  void op_deserialize() {
    Target t = gen_target();
    gen::Opts o;
    o.floats = false;
    o.max_depth = 3;
    o.node_budget = 8;
    o.max_str = opt.max_str < 16 ? opt.max_str : 16;
    o.utf8_only = true;
    o.nul = true;
    Val v = gen::gen_value(s, o);
    bool msgpack = s.coin();
    do_deserialize(t, v, msgpack);
  }
  void do_deserialize(const Target& t, const Val& v, bool msgpack) {
    set_hole(t);
    if (t.form == 0 && opt.max_shrinks == 0) {  // the document is shrunk at the end of the call
      ctx.known("shrink_burns_pool_ids");
      return;
    }
    std::string bytes;
    if (msgpack) {
      mref::Widths w0;
      mref::EncStats es;
      mref::encode(v, bytes, w0, es);
    } else {
      jref::print(v, bytes);
    }
    note(std::string(msgpack ? "deserializeMsgPack(" : "deserializeJson(") + render_target(t) + ", " + (msgpack ? cs::hex_bytes(bytes, 60) : cs::quote_bytes(bytes, 120)) + ")");
    st.deser_ops++;
    Val* n;
    if (t.form == 0) {
      m.make_null(m.docs[(size_t)t.doc].root);
      m.docs[(size_t)t.doc].shrinks = 1;
      bump(t.doc);
      n = &m.docs[(size_t)t.doc].root;
    } else n = resolve(t, true);
    if (n) m.assign(*n, v);
    for (auto& w : worlds) {
      DeserializationError err = DeserializationError::Ok;
      auto doit = [&](auto&& x) { err = msgpack ? deserializeMsgPack(x, bytes.data(), bytes.size()) : deserializeJson(x, bytes.data(), bytes.size()); };
      if (t.form == 0) doit(*w->docs[(size_t)t.doc]);
      else on_target(*w, t, doit);
      op_has_channel = true;
      if (err == DeserializationError::NoMemory) op_reported = true;
      if (n && err != DeserializationError::Ok && !(faults && err == DeserializationError::NoMemory))
        fail("deserialize-in-history", std::string("deserialization into an existing destination returned ") + err.c_str());
      if (!n && err == DeserializationError::Ok) ctx.label("deserialize-into-unreachable-destination-ok");
    }
    after_insert();
  }

  // reads through proxies never create anything
  void op_read_only() {
    Target t = gen_target();
    if (t.form == 0) t.form = 1;
    note("read " + render_target(t));
    Val* n = resolve(t, false);
    for (auto& w : worlds) {
      on_target(*w, t, [&](auto&& x) {
        bool isnull = x.isNull();
        size_t sz = x.size();
        (void)x.template as<int>();
        (void)x.template as<double>();
        (void)x.template as<const char*>();
        (void)x.template is<JsonArray>();
        (void)x.template is<JsonObject>();
        (void)x.nesting();
        JsonVariantConst c = x;
        (void)c["nope"][3].isNull();
        (void)x["nope"][3].isNull();
        if (isnull != (!n || n->k == Val::Null)) fail("read", "isNull() through " + render_target(t) + " disagrees with the model");
        size_t want = n ? (n->k == Val::Arr ? n->a.size() : n->k == Val::Obj ? n->o.size() : 0) : 0;
        if (sz != want) fail("read", "size() through " + render_target(t) + " disagrees with the model");
      });
    }
  }

  // copyArray in both directions
  // a variant that is neither an index nor a key: operations addressed through it designate nothing
  static void make_odd_key(JsonDocument& k, unsigned odd) {
    switch (odd) {
      case 0: k.set(-1); break;
      case 1: k.set(1.5); break;
      case 2: k.set(true); break;
      case 3: k.clear(); break;
      case 4: k.add(0); break;
      case 5: k.set(-4000000000LL); break;
      default: k.set(1.0); break;  // stored as a float: is<size_t>() is false
    }
  }
  static const char* odd_key_name(unsigned odd) {
    static const char* N[] = {"-1", "1.5", "true", "null", "[0]", "-4000000000", "1.0(float)"};
    return N[odd < 7 ? odd : 6];
  }
  // operations through a null key or through a variant that is neither index nor key: the model
  // predicts no effect at all (in particular a null target stays null), reads give null
  void op_no_such_key() {
    // typed handles have their own overloads (JsonArray::remove(variant), JsonObject::operator[](variant), ...)
    std::vector<int> hs = live_handles(-1, 6);
    unsigned odd = (unsigned)s.below(7);
    Scalar sc = gen_scalar(s, opt);
    st.no_such_key_ops++;
    if (!hs.empty() && s.coin()) {
      int hi = hs[s.below(hs.size())];
      MHandle& h = m.handles[(size_t)hi];
      unsigned which = (unsigned)s.below(4);
      note("h" + std::to_string(hi) + (h.type == 1 ? "(array)" : "(object)") + " no-such-key op " + std::to_string(which) + " key " + odd_key_name(odd));
      Target ht;
      ht.doc = h.doc;
      ht.form = 2;
      ht.handle = hi;
      set_hole(ht);
      for (auto& w : worlds) {
        JsonDocument k;
        make_odd_key(k, odd);
        JsonVariantConst kv = k.as<JsonVariantConst>();
        if (h.type == 1) {
          JsonArray a = w->handles[(size_t)hi].a;
          switch (which) {
            case 0: a.remove(kv); break;
            case 1: {
              bool r = lib_set(a[kv], sc, *w);
              if (!sc.assign && exact_return(sc)) ret_check(r, false, "JsonArray[variant that is not an index].set() returned true");
              break;
            }
            case 2:
              if (!a[kv].isNull()) fail("no-such-key", "JsonArray[variant that is not an index] is not null");
              break;
            default: {
              JsonArray sub = a[kv].template to<JsonArray>();
              if (!sub.isNull()) fail("no-such-key", "JsonArray[variant that is not an index].to<JsonArray>() is bound");
            }
          }
        } else {
          JsonObject o = w->handles[(size_t)hi].o;
          switch (which) {
            case 0:
              o.remove(kv);
              o.remove(static_cast<const char*>(nullptr));
              break;
            case 1: {
              bool r = lib_set(o[kv], sc, *w);
              if (!sc.assign && exact_return(sc)) ret_check(r, false, "JsonObject[variant that is not a key].set() returned true");
              break;
            }
            case 2:
              if (!o[kv].isNull() || !o[static_cast<const char*>(nullptr)].isNull()) fail("no-such-key", "JsonObject[null key] is not null");
              break;
            default: {
              bool r = lib_set(o[static_cast<const char*>(nullptr)], sc, *w);
              if (!sc.assign && exact_return(sc)) ret_check(r, false, "JsonObject[null key].set() returned true");
            }
          }
        }
      }
      return;
    }
    Target t = gen_target();
    Val* n = resolve(t, false);
    if (!n) {  // would create the path to the target first: not this operation's business
      op_read_only();
      return;
    }
    set_hole(t);
    unsigned which = (unsigned)s.below(8);
    note(render_target(t) + " no-such-key op " + std::to_string(which) + " key " + odd_key_name(odd) + " value " + render_scalar(sc));
    for (auto& w : worlds) {
      JsonDocument k;
      make_odd_key(k, odd);
      JsonVariantConst kv = k.as<JsonVariantConst>();
      auto doit = [&](auto&& x) {
        bool r = false, has_r = false;
        switch (which) {
          case 0: r = lib_set(x[static_cast<const char*>(nullptr)], sc, *w); has_r = true; break;
          case 1: r = lib_set(x[static_cast<char*>(nullptr)], sc, *w); has_r = true; break;
          case 2: r = lib_set(x[JsonString()], sc, *w); has_r = true; break;
          case 3:
            x.remove(static_cast<const char*>(nullptr));
            x.remove(JsonString());
            break;
          case 4: x.remove(kv); break;
          case 5:
            if (!x[static_cast<const char*>(nullptr)].isNull() || !x[kv].isNull()) fail("no-such-key", "value read through a null key / a variant that is no key is not null");
            break;
          case 6: {
            JsonArray sub = x[static_cast<const char*>(nullptr)].template to<JsonArray>();
            if (!sub.isNull()) fail("no-such-key", "[null key].to<JsonArray>() is bound");
            r = x[static_cast<const char*>(nullptr)].add(1);
            if (r) fail("no-such-key", "[null key].add() returned true");
            break;
          }
          default:
            r = lib_set(x[static_cast<const char*>(nullptr)]["k"], sc, *w);
            has_r = true;
            if (!x[static_cast<const char*>(nullptr)][2].isNull()) fail("no-such-key", "[null key][2] is not null");
        }
        if (has_r && !sc.assign && exact_return(sc)) ret_check(r, false, "set() through a null key returned true");
      };
      if (t.form == 0) doit(*w->docs[(size_t)t.doc]);
      else on_target(*w, t, doit);
    }
  }

  void op_copy_array() {
    Target t = gen_target();
    size_t n0 = (size_t)s.below(5);
    int vals[4] = {(int)s.irange(-5, 5), 70000, -3, 0};
    note("copyArray(int[" + std::to_string(n0) + "], " + render_target(t) + ")");
    set_hole(t);
    Val* n = t.form == 0 ? &m.docs[(size_t)t.doc].root : (n0 == 0 ? nullptr : resolve(t, true));
    if (t.form == 0) {
      m.make_null(*n);
      m.docs[(size_t)t.doc].shrinks = 0;
      bump(t.doc);
      uint64_t id = n->id;
      *n = Val::arr();
      n->id = id;
    }
    bool appended = false;
    if (n && (n->k == Val::Null || n->k == Val::Arr)) {
      if (n->k == Val::Null) {
        uint64_t id = n->id;
        *n = Val::arr();
        n->id = id;
      }
      for (size_t i = 0; i < n0 && i < 4; i++) {
        Val e = Val::sint(vals[i]);
        e.id = m.fresh();
        n->a.push_back(e);
      }
      appended = true;
    }
    (void)appended;
    for (auto& w : worlds) {
      if (t.form == 0) copyArray(vals, n0 < 4 ? n0 : 4, *w->docs[(size_t)t.doc]);
      else on_target(*w, t, [&](auto&& x) { copyArray(vals, n0 < 4 ? n0 : 4, x); });
    }
    after_insert();
  }

  // ---------------------------------------------------------------- end of history
  void finish() {
    verify(true);
    for (auto& w : worlds) {
      // clear() returns every block of the ledgers the documents own
      for (size_t d = 0; d < opt.ndocs; d++) w->docs[d]->clear();
      for (size_t l = 0; l < w->ledgers.size(); l++)
        if (w->ledgers[l]->live_blocks() != 0)
          fail("leak-after-clear", "ledger " + std::to_string(l) + " still has " + std::to_string(w->ledgers[l]->live_blocks()) + " live block(s) after every document was cleared");
      w->handles.clear();
      w->docs.clear();
      for (size_t l = 0; l < w->ledgers.size(); l++) {
        if (w->ledgers[l]->live_blocks() != 0) fail("leak-after-destruction", "ledger " + std::to_string(l) + " has live blocks after destruction");
        if (!w->ledgers[l]->error.empty()) fail("allocator-discipline", w->ledgers[l]->error);
      }
    }
  }
};

}  // namespace hist
