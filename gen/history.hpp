// Model-based API histories: a plain ordered-tree model and a library "world" driven in lockstep.
// Operations are generated from the MODEL only (never from library state), so the same choice
// sequence yields the same history under every build configuration and string-kind policy.
#pragma once
#include <ArduinoJson.h>

#include <memory>
#include <set>
#include <string_view>

#include "../engine/cs.hpp"
#include "../lib/build.hpp"
#include "../lib/inspect.hpp"
#include "../lib/ledger.hpp"
#include "../lib/observe.hpp"
#include "../ref/json_ref.hpp"
#include "../ref/msgpack_ref.hpp"
#include "values.hpp"

namespace hist {
using namespace ArduinoJson;
using cs::Src;
using ref::Val;

// ------------------------------------------------------------------------------ scalars
struct Scalar {
  enum K { NUL, BOOL, INT, FLT32, FLT64, STR, RAW, BIN } k = NUL;
  Val v;          // model value of the scalar
  int ctype = 0;  // which C++ type carries an integer
  int skind = 0;  // string source kind (see StrKind)
  bool assign = false;  // use operator= instead of set() where the target type has one
};

enum StrKind { SK_STD = 0, SK_VIEW, SK_JSTR_COPIED, SK_LINKED, SK_CHARPTR, SK_JSTR_LINKED, SK_CHARARR, SK_COUNT, SK_ARDUINO_STRING = 7, SK_FLASH = 8 };
inline const char* strkind_name(int k) {
  static const char* n[] = {"std::string", "string_view", "JsonString(copied)", "const char*", "char*", "JsonString(linked)", "char[]", "Arduino String", "flash string"};
  return k >= 0 && k <= SK_FLASH ? n[k] : "?";
}
inline bool strkind_sized(int k) { return k == SK_STD || k == SK_VIEW || k == SK_JSTR_COPIED; }

struct Step {  // one step of a proxy path
  bool is_index;
  size_t index;
  std::string key;
};

// ------------------------------------------------------------------------------ model
struct MDoc {
  Val root;
  uint64_t epoch = 0;  // bumped by document-level operations (all handles die)
  int ledger = 0;      // which ledger the document currently owns
  bool default_alloc = false;
  unsigned shrinks = 0;  // shrinkToFit() calls since the pools were last released (KF shrink_burns_pool_ids)
};

struct MHandle {
  int doc;
  uint64_t id;
  int type;  // 0 JsonVariant, 1 JsonArray, 2 JsonObject
  uint64_t epoch;
  unsigned survived = 0;  // mutations survived (for non-triviality)
};

inline Val* find_id(Val& v, uint64_t id) {
  if (v.id == id) return &v;
  for (auto& e : v.a)
    if (Val* r = find_id(e, id)) return r;
  for (auto& kv : v.o)
    if (Val* r = find_id(kv.second, id)) return r;
  return nullptr;
}
inline bool contains_id(const Val& v, uint64_t id) { return find_id(const_cast<Val&>(v), id) != nullptr; }

struct Model {
  std::vector<MDoc> docs;
  std::vector<MHandle> handles;
  uint64_t next_id = 1;

  uint64_t fresh() { return next_id++; }
  void renumber(Val& v) {  // fresh ids for a whole subtree
    v.id = fresh();
    for (auto& e : v.a) renumber(e);
    for (auto& kv : v.o) renumber(kv.second);
  }
  void renumber_children(Val& v) {
    for (auto& e : v.a) renumber(e);
    for (auto& kv : v.o) renumber(kv.second);
  }
  // assign `src` (deep copy, fresh ids) to node keeping the node's own id
  void assign(Val& node, const Val& src) {
    uint64_t id = node.id;
    Val copy = src;
    node = copy;
    node.id = id;
    renumber_children(node);
  }
  void make_null(Val& node) {
    uint64_t id = node.id;
    node = Val::null();
    node.id = id;
  }
  bool handle_live(const MHandle& h) const {
    if (h.epoch != docs[h.doc].epoch) return false;
    Val* n = find_id(const_cast<Val&>(docs[h.doc].root), h.id);
    if (!n) return false;
    if (h.type == 1 && n->k != Val::Arr) return false;
    if (h.type == 2 && n->k != Val::Obj) return false;
    return true;
  }
};

// ------------------------------------------------------------------------------ library world
struct LHandle {
  JsonVariant v;
  JsonArray a;
  JsonObject o;
};

struct World {
  std::vector<std::unique_ptr<lib::Ledger>> ledgers;
  std::vector<std::unique_ptr<JsonDocument>> docs;
  std::vector<LHandle> handles;  // parallel to Model::handles
  lib::Arena arena;              // linked strings live here, beyond every document
  int policy = -1;               // -1: string kinds as generated; >= 0: forced kind (C14 lockstep)
  // C06: the document whose pool requests are watched during the current operation
  JsonDocument* watch = nullptr;
  size_t watch_pools = 0;
  std::string watch_error;
  unsigned pool_requests = 0;

  ~World() {
    handles.clear();
    docs.clear();  // documents before ledgers
  }
};

struct Options {
  size_t ndocs = 2;
  bool inspector = true;
  bool use_ledgers = true;
  bool allow_alias_ops = false;   // KF alias_overlap inactive => generate overlapping assignments
  bool string_ops_only = false;   // C14: histories concentrated on string-bearing operations
  bool big_strings = false;
  size_t max_nodes = 60;
  size_t max_str = 40;            // bounded by the configured string length in tiny geometries
  bool doc_level_ops = true;
  bool deserialize_ops = true;
  bool reduced_alphabet = false;  // bounded-exhaustive mode
  long max_shrinks = -1;          // >= 0: KF shrink_burns_pool_ids active, at most that many shrinks per pool lifetime
};

struct Stats {
  unsigned ops = 0, removals = 0, inserts_after_removal = 0, copies = 0, doc_moves = 0, handle_ops = 0, proxy_ops = 0, deser_ops = 0;
  unsigned shared_string_removed = 0, cross_ledger_moves = 0, alias_excluded = 0, max_handle_survival = 0;
  bool removed_once = false;
  unsigned container_sets = 0, no_such_key_ops = 0, assign_ops = 0, iterator_handles = 0;
};

// ------------------------------------------------------------------------------ helpers
inline std::string render_scalar(const Scalar& sc) {
  std::string r = ref::render(sc.v, 80);
  if (sc.k == Scalar::INT) r += "/c" + std::to_string(sc.ctype);
  if (sc.k == Scalar::STR) r += std::string("/") + strkind_name(sc.skind);
  return r;
}
inline std::string render_path(const std::vector<Step>& p) {
  std::string r;
  for (auto& s : p) r += s.is_index ? "[" + std::to_string(s.index) + "]" : "[" + cs::quote_bytes(s.key, 30) + "]";
  return r;
}

// apply `f(target)` to the proxy reached from `base` through `path` (depth <= 2)
template <typename Base, typename F>
void with_path(Base&& base, const std::vector<Step>& path, F&& f) {
  if (path.empty()) {
    f(base);
    return;
  }
  auto step2 = [&](auto&& p1) {
    if (path.size() == 1) {
      f(p1);
      return;
    }
    if (path[1].is_index) f(p1[path[1].index]);
    else f(p1[path[1].key]);
  };
  if (path[0].is_index) step2(base[path[0].index]);
  else step2(base[path[0].key]);
}

// `target = value` when the target type offers it (proxies, JsonDocument), else target.set(value)
template <typename T, typename V>
auto assign_or_set(T&& t, V&& v, int) -> decltype((t = v), bool()) {
  t = v;
  return true;
}
template <typename T, typename V>
bool assign_or_set(T&& t, V&& v, long) {
  return t.set(v);
}
#define LIB_SET(X) (sc.assign ? assign_or_set(target, X, 0) : target.set(X))

// set a scalar on any target (JsonVariant, proxy, ...); returns the library's return value
template <typename T>
bool lib_set(T&& target, const Scalar& sc, World& w) {
  switch (sc.k) {
    case Scalar::NUL: return LIB_SET(nullptr);
    case Scalar::BOOL: return LIB_SET(sc.v.b);
    case Scalar::INT: {
      const Val& v = sc.v;
      if (v.neg) {
        int64_t x = v.as_i64();
        switch (sc.ctype % 4) {
          case 1: if (x >= INT32_MIN) return LIB_SET((int32_t)x); break;
          case 2: if (x >= INT16_MIN) return LIB_SET((int16_t)x); break;
          case 3: if (x >= INT8_MIN) return LIB_SET((signed char)x); break;
        }
        return LIB_SET(x);
      }
      uint64_t x = v.mag;
      switch (sc.ctype % 8) {
        case 1: if (x <= INT64_MAX) return LIB_SET((int64_t)x); break;
        case 2: if (x <= UINT32_MAX) return LIB_SET((uint32_t)x); break;
        case 3: if (x <= INT32_MAX) return LIB_SET((int32_t)x); break;
        case 4: if (x <= UINT16_MAX) return LIB_SET((uint16_t)x); break;
        case 5: if (x <= INT16_MAX) return LIB_SET((short)x); break;
        case 6: if (x <= UINT8_MAX) return LIB_SET((unsigned char)x); break;
        case 7: if (x <= INT64_MAX) return LIB_SET((long long)x); break;
      }
      return LIB_SET(x);
    }
    case Scalar::FLT32: return LIB_SET((float)sc.v.d);
    case Scalar::FLT64: return LIB_SET(sc.v.d);
    case Scalar::STR: {
      const std::string& str = sc.v.s;
      int kind = w.policy >= 0 ? w.policy : sc.skind;
      if (!strkind_sized(kind) && str.find('\0') != std::string::npos) kind = SK_STD;
      switch (kind) {
        case SK_STD: {
          std::string tmp = str;
          bool r = LIB_SET(tmp);
          for (auto& c : tmp) c = '#';
          return r;
        }
        case SK_VIEW: {
          std::string tmp = str;
          bool r = LIB_SET(std::string_view(tmp));
          for (auto& c : tmp) c = '#';
          return r;
        }
        case SK_JSTR_COPIED: {
          std::string tmp = str;
          bool r = LIB_SET(JsonString(tmp.data(), tmp.size(), JsonString::Copied));
          for (auto& c : tmp) c = '#';
          return r;
        }
        case SK_LINKED: return LIB_SET(w.arena.keep(str));
        case SK_CHARPTR: {
          std::string tmp = str;
          bool r = LIB_SET(const_cast<char*>(tmp.c_str()));
          for (auto& c : tmp) c = '#';
          return r;
        }
        case SK_JSTR_LINKED: return LIB_SET(JsonString(w.arena.keep(str), JsonString::Linked));
#if ARDUINOJSON_ENABLE_ARDUINO_STRING
        case SK_ARDUINO_STRING: {
          ::String tmp(str.c_str());
          bool r = LIB_SET(tmp);
          tmp = "################";
          return r;
        }
#endif
#if ARDUINOJSON_ENABLE_PROGMEM
        case SK_FLASH: {
          std::string tmp = str;
          bool r = LIB_SET(reinterpret_cast<const __FlashStringHelper*>(tmp.c_str() + 42));
          for (auto& c : tmp) c = '#';
          return r;
        }
#endif
        default: {
          char buf[64];
          if (str.size() >= sizeof buf) {
            std::string tmp = str;
            return LIB_SET(tmp);
          }
          memcpy(buf, str.c_str(), str.size() + 1);
          bool r = LIB_SET(buf);
          memset(buf, '#', sizeof buf);
          return r;
        }
      }
    }
    case Scalar::RAW: {
      // every way of giving a raw value: std::string, const char*, char*, (pointer, size); raw values
      // are always copied, so the source is overwritten right after the call
      std::string tmp = sc.v.s;
      bool r;
      switch (sc.skind % 4) {
        case 0: r = LIB_SET(serialized(tmp)); break;
        case 1: r = LIB_SET(serialized(static_cast<const char*>(tmp.c_str()))); break;
        case 2: r = LIB_SET(serialized(const_cast<char*>(tmp.c_str()))); break;
        default: r = LIB_SET(serialized(tmp.data(), tmp.size()));
      }
      for (auto& ch : tmp) ch = '#';
      return r;
    }
    case Scalar::BIN: {
      // sc.v is a Raw holding the bin8 encoding; give the payload through MsgPackBinary
      const std::string& r = sc.v.s;
      return LIB_SET(MsgPackBinary(r.data() + 2, r.size() - 2));
    }
  }
  return false;
}

template <typename T>
bool lib_add(T&& target, const Scalar& sc, World& w) {
  switch (sc.k) {
    case Scalar::NUL: return target.add(nullptr);
    case Scalar::BOOL: return target.add(sc.v.b);
    case Scalar::INT:
      if (sc.v.neg) return target.add(sc.v.as_i64());
      if (sc.ctype & 1) return target.add((uint32_t)(sc.v.mag & 0xFFFFFFFFu) == sc.v.mag ? (uint64_t)sc.v.mag : sc.v.mag);
      return target.add(sc.v.mag);
    case Scalar::FLT32: return target.add((float)sc.v.d);
    case Scalar::FLT64: return target.add(sc.v.d);
    case Scalar::STR: {
      const std::string& str = sc.v.s;
      int kind = w.policy >= 0 ? w.policy : sc.skind;
      if (!strkind_sized(kind) && str.find('\0') != std::string::npos) kind = SK_STD;
      switch (kind) {
        case SK_LINKED: return target.add(w.arena.keep(str));
        case SK_JSTR_LINKED: return target.add(JsonString(w.arena.keep(str), JsonString::Linked));
        case SK_VIEW: {
          std::string tmp = str;
          bool r = target.add(std::string_view(tmp));
          for (auto& c : tmp) c = '#';
          return r;
        }
        case SK_JSTR_COPIED: {
          std::string tmp = str;
          bool r = target.add(JsonString(tmp.data(), tmp.size(), JsonString::Copied));
          for (auto& c : tmp) c = '#';
          return r;
        }
        case SK_CHARPTR: {
          std::string tmp = str;
          bool r = target.add(const_cast<char*>(tmp.c_str()));
          for (auto& c : tmp) c = '#';
          return r;
        }
#if ARDUINOJSON_ENABLE_ARDUINO_STRING
        case SK_ARDUINO_STRING: {
          ::String tmp(str.c_str());
          bool r = target.add(tmp);
          tmp = "################";
          return r;
        }
#endif
#if ARDUINOJSON_ENABLE_PROGMEM
        case SK_FLASH: {
          std::string tmp = str;
          bool r = target.add(reinterpret_cast<const __FlashStringHelper*>(tmp.c_str() + 42));
          for (auto& c : tmp) c = '#';
          return r;
        }
#endif
        default: {
          std::string tmp = str;
          bool r = target.add(tmp);
          for (auto& c : tmp) c = '#';
          return r;
        }
      }
    }
    case Scalar::RAW: {
      std::string tmp = sc.v.s;
      bool r;
      switch (sc.skind % 4) {
        case 0: r = target.add(serialized(tmp)); break;
        case 1: r = target.add(serialized(static_cast<const char*>(tmp.c_str()))); break;
        case 2: r = target.add(serialized(const_cast<char*>(tmp.c_str()))); break;
        default: r = target.add(serialized(tmp.data(), tmp.size()));
      }
      for (auto& ch : tmp) ch = '#';
      return r;
    }
    case Scalar::BIN: return target.add(MsgPackBinary(sc.v.s.data() + 2, sc.v.s.size() - 2));
  }
  return false;
}

// ------------------------------------------------------------------------------ generator pieces
inline Scalar gen_scalar(Src& s, const Options& opt) {
  Scalar sc;
  sc.assign = !opt.reduced_alphabet && s.chance(1, 3);
  static const unsigned w[] = {2, 2, 5, 2, 3, 6, 1, 1};
  static const unsigned wstr[] = {1, 1, 2, 0, 1, 12, 1, 0};
  unsigned c = (unsigned)(opt.string_ops_only ? s.pick(wstr) : s.pick(w));
  if (opt.reduced_alphabet) {
    static const unsigned wr[] = {1, 0, 3, 0, 0, 3, 0, 0};
    c = (unsigned)s.pick(wr);
  }
  switch (c) {
    case 0: sc.k = Scalar::NUL; sc.v = Val::null(); break;
    case 1: sc.k = Scalar::BOOL; sc.v = Val::boolean(s.coin()); break;
    case 2:
      sc.k = Scalar::INT;
      sc.v = opt.reduced_alphabet ? Val::uint(1 + s.below(2) * 4294967296ull) : gen::gen_int(s);
      sc.ctype = (int)s.below(8);
      break;
    case 3: {
      sc.k = Scalar::FLT32;
      float f = (float)gen::gen_double(s, true);
      sc.v = Val::flt((double)f);
      break;
    }
    case 4: sc.k = Scalar::FLT64; sc.v = Val::flt(gen::gen_double(s, true)); break;
    case 5: {
      sc.k = Scalar::STR;
      if (opt.reduced_alphabet) {
        sc.v = Val::str(s.coin() ? "s" : "t");
        sc.skind = s.coin() ? SK_STD : SK_LINKED;
        break;
      }
      gen::Opts o;
      o.utf8_only = false;
      o.max_str = opt.max_str;
      o.long_strings = opt.big_strings;
      static const char* common[] = {"", "a", "shared", "shared", "3.25", "1e3", "18446744073709551615", "-0", "key", "x y"};
      std::string str = s.chance(2, 5) ? std::string(common[s.below(10)]) : gen::gen_string(s, o);
      if (str.size() > opt.max_str) str.resize(opt.max_str);
      sc.v = Val::str(str);
      sc.skind = (int)s.below(SK_COUNT);
      break;
    }
    case 6: {
      sc.k = Scalar::RAW;
      static const char* R[] = {"1", "[1,2]", "{\"x\":null}", "\"raw\"", "true", " 7 ", "shared"};
      sc.v = Val::raw(R[s.below(7)]);
      sc.skind = (int)s.below(4);
      break;
    }
    default: {
      sc.k = Scalar::BIN;
      std::string data;
      size_t n = (size_t)s.below(6);
      for (size_t i = 0; i < n; i++) data += (char)s.below(256);
      sc.v = Val::raw(mref::bin_bytes(data, 1));
    }
  }
  return sc;
}

inline std::string gen_key(Src& s, const Options& opt) {
  if (opt.reduced_alphabet) return s.coin() ? "a" : "b";
  static const char* K[] = {"a", "b", "", "ab", "abc", "key", "shared", "x y", "0", "*"};
  size_t i = (size_t)s.below(12);
  if (i == 10) return std::string("a\0b", 3);
  if (i == 11) {
    gen::Opts o;
    o.max_str = opt.max_str < 12 ? opt.max_str : 12;
    return gen::gen_string(s, o);
  }
  return K[i];
}

}  // namespace hist
