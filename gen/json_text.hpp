// Spelling generator: renders a reference value as JSON text with generated choices of
// whitespace, escape spelling, number spelling, quotes and comments.
#pragma once
#include <cstdlib>

#include "../ref/json_ref.hpp"
#include "values.hpp"

namespace gen {

struct Spell {
  bool strict = true;        // RFC 8259 only
  bool comments = false;     // dialect: comments enabled in this build
  bool ws = true;            // generate insignificant whitespace
  bool lenient_numbers = false;  // leading zeros, '+', "1.", ".5" (dialect)
  bool unicode = true;       // \uXXXX may be used (DECODE_UNICODE=1)
  // statistics
  size_t escapes = 0, ws_runs = 0, nonascii = 0, lenient_used = 0, dialect_used = 0;
};

inline void put_ws(Src& s, Spell& sp, std::string& o) {
  if (!sp.ws) return;
  static const unsigned w[] = {12, 3, 1};
  size_t n = 0;
  switch (s.pick(w)) {
    case 0: return;
    case 1: n = 1; break;
    default: n = 1 + (size_t)s.below(4);
  }
  sp.ws_runs++;
  for (size_t i = 0; i < n; i++) {
    if (!sp.strict && sp.comments && s.chance(1, 6)) {
      sp.dialect_used++;
      if (s.coin()) o += "/* c*\" */";
      else o += "// c\"\n";
      continue;
    }
    static const char W[] = {' ', '\n', '\t', '\r'};
    o += W[s.below(4)];
  }
}

inline void put_hex4(Src& s, uint32_t cu, std::string& o) {
  static const char* lo = "0123456789abcdef";
  static const char* up = "0123456789ABCDEF";
  o += "\\u";
  for (int i = 3; i >= 0; i--) {
    unsigned d = (cu >> (4 * i)) & 0xF;
    o += (s.coin() ? up : lo)[d];
  }
}

// decode one UTF-8 sequence at s[i]; returns length (0 if invalid)
inline size_t utf8_decode(const std::string& s, size_t i, uint32_t& cp) {
  unsigned char c = (unsigned char)s[i];
  auto cont = [&](size_t k) { return i + k < s.size() && (((unsigned char)s[i + k]) & 0xC0) == 0x80; };
  if (c < 0x80) {
    cp = c;
    return 1;
  }
  if (c >= 0xC2 && c <= 0xDF && cont(1)) {
    cp = ((c & 0x1Fu) << 6) | ((unsigned char)s[i + 1] & 0x3Fu);
    return 2;
  }
  if (c >= 0xE0 && c <= 0xEF && cont(1) && cont(2)) {
    cp = ((c & 0x0Fu) << 12) | (((unsigned char)s[i + 1] & 0x3Fu) << 6) | ((unsigned char)s[i + 2] & 0x3Fu);
    if (cp < 0x800 || (cp >= 0xD800 && cp <= 0xDFFF)) return 0;
    return 3;
  }
  if (c >= 0xF0 && c <= 0xF4 && cont(1) && cont(2) && cont(3)) {
    cp = ((c & 0x07u) << 18) | (((unsigned char)s[i + 1] & 0x3Fu) << 12) | (((unsigned char)s[i + 2] & 0x3Fu) << 6) |
         ((unsigned char)s[i + 3] & 0x3Fu);
    if (cp < 0x10000 || cp > 0x10FFFF) return 0;
    return 4;
  }
  return 0;
}

inline void spell_string(Src& s, Spell& sp, const std::string& str, std::string& o, bool is_key) {
  // dialect: unquoted identifier keys
  if (!sp.strict && is_key && !str.empty() && s.chance(1, 3)) {
    bool ident = !(str[0] >= '0' && str[0] <= '9');
    for (unsigned char c : str)
      if (!((c >= 'a' && c <= 'z') || (c >= 'A' && c <= 'Z') || (c >= '0' && c <= '9') || c == '_')) ident = false;
    if (ident) {
      sp.dialect_used++;
      o += str;
      return;
    }
  }
  char q = '"';
  if (!sp.strict && s.chance(1, 4)) {
    q = '\'';
    sp.dialect_used++;
  }
  o += q;
  for (size_t i = 0; i < str.size();) {
    uint32_t cp = 0;
    size_t len = utf8_decode(str, i, cp);
    if (len == 0) {  // invalid UTF-8 byte: raw only
      o += str[i++];
      sp.nonascii++;
      continue;
    }
    i += len;
    bool must_escape = cp == (uint32_t)q || cp == '\\' || cp == 0 || (sp.strict && cp < 0x20);
    // how to spell: 0 raw, 1 short escape, 2 \u escape
    unsigned how = 0;
    const char* shortesc = nullptr;
    switch (cp) {
      case '"': shortesc = "\\\""; break;
      case '\\': shortesc = "\\\\"; break;
      case '/': shortesc = "\\/"; break;
      case '\b': shortesc = "\\b"; break;
      case '\f': shortesc = "\\f"; break;
      case '\n': shortesc = "\\n"; break;
      case '\r': shortesc = "\\r"; break;
      case '\t': shortesc = "\\t"; break;
      case '\'': shortesc = sp.strict ? nullptr : "\\'"; break;
    }
    bool can_u = sp.unicode;
    if (must_escape) {
      if (shortesc && (!can_u || s.below(3) != 0)) how = 1;
      else how = 2;
      if (how == 2 && !can_u) how = shortesc ? 1 : 0;
      if (cp == 0 && !can_u) {  // NUL cannot be written without \u: drop it (caller avoids this)
        continue;
      }
    } else {
      static const unsigned w[] = {10, 2, 2};
      how = (unsigned)s.pick(w);
      if (how == 1 && !shortesc) how = 0;
      if (how == 2 && !can_u) how = 0;
    }
    if (how == 0) {
      if (cp >= 0x80) sp.nonascii++;
      o.append(str, i - len, len);
    } else if (how == 1) {
      sp.escapes++;
      o += shortesc;
    } else {
      sp.escapes++;
      if (cp >= 0x10000) {
        uint32_t v = cp - 0x10000;
        put_hex4(s, 0xD800 + (v >> 10), o);
        put_hex4(s, 0xDC00 + (v & 0x3FF), o);
      } else {
        put_hex4(s, cp, o);
      }
    }
  }
  o += q;
}

// a decimal literal with fraction and/or exponent; value within about 1e-290..1e290; <= maxlen chars
inline std::string gen_float_literal(Src& s, size_t maxlen = 40) {
  std::string mant;
  static const unsigned wd[] = {6, 4, 3, 3, 2};
  size_t nd;
  switch (s.pick(wd)) {
    case 0: nd = 1 + (size_t)s.below(3); break;
    case 1: nd = 6 + (size_t)s.below(4); break;    // 6..9: around the 7-digit boundary
    case 2: nd = 15 + (size_t)s.below(4); break;   // 15..18
    case 3: nd = 19 + (size_t)s.below(3); break;   // 19..21: accumulator overflow zone
    default: nd = 1 + (size_t)s.below(maxlen > 20 ? maxlen - 8 : 12);  // up to the longest literal that fits
  }
  for (size_t i = 0; i < nd; i++) mant += (char)('0' + s.below(10));
  if (mant[0] == '0' && nd > 1 && s.coin()) mant[0] = (char)('1' + s.below(9));
  // decimal point position: 0..nd (0 => "0.ddd")
  size_t dp = (size_t)s.below(nd + 1);
  std::string lit;
  if (s.chance(1, 3)) lit += '-';
  std::string ip = mant.substr(0, dp), fp = mant.substr(dp);
  // strict JSON: no leading zeros in the integer part
  size_t z = 0;
  while (z + 1 < ip.size() && ip[z] == '0') z++;
  ip = ip.substr(z);
  if (ip.empty()) ip = "0";
  lit += ip;
  bool has_frac = !fp.empty();
  if (has_frac) lit += "." + fp;
  bool has_exp = !has_frac || s.coin();
  if (has_exp) {
    // keep the value's decimal magnitude in [-290, 290]
    long mag = (long)ip.size() - 1;
    if (ip == "0") {
      size_t k = 0;
      while (k < fp.size() && fp[k] == '0') k++;
      mag = -(long)k - 1;
    }
    static const unsigned we[] = {5, 3, 2};
    long target;
    switch (s.pick(we)) {
      case 0: target = s.irange(-12, 12); break;
      case 1: target = s.irange(-45, 45); break;  // float range edge
      default: target = s.irange(-290, 290);
    }
    long e = target - mag;
    lit += s.coin() ? 'e' : 'E';
    if (e < 0) lit += '-';
    else if (s.coin()) lit += '+';
    if (s.chance(1, 8)) lit += '0';
    lit += std::to_string(e < 0 ? -e : e);
  }
  if (lit.size() > maxlen) return "1.5";
  if (lit.size() + 2 < maxlen && lit.find('.') != std::string::npos && lit.find_first_of("eE") == std::string::npos && s.chance(1, 10)) {
    // exactly maxlen (or maxlen-1) characters: trailing zeros do not change the value
    size_t target = maxlen - (size_t)s.below(2);
    lit.append(target - lit.size(), '0');
  }
  return lit;
}

inline void spell_number(Src& s, Spell& sp, const Val& v, std::string& o) {
  if (v.k == Val::Int) {
    if (v.neg) o += '-';
    else if (sp.lenient_numbers && s.chance(1, 8)) {
      o += '+';
      sp.lenient_used++;
    }
    if (sp.lenient_numbers && s.chance(1, 6)) {
      size_t z = 1 + (size_t)s.below(s.coin() ? 3 : 30);
      o.append(z, '0');
      sp.lenient_used++;
    }
    o += std::to_string((unsigned long long)v.mag);
    return;
  }
  // Flt: literal text kept in v.s by the generator, else shortest round-trip text
  if (!v.s.empty()) {
    std::string lit = v.s;
    if (sp.lenient_numbers && lit[0] != '-' && s.chance(1, 8)) {
      lit = "+" + lit;
      sp.lenient_used++;
    }
    o += lit;
    return;
  }
  char b[40];
  snprintf(b, sizeof b, "%.17g", v.d);
  o += b;
  if (!strpbrk(b, ".eE")) o += ".0";
}

inline void spell(Src& s, Spell& sp, const Val& v, std::string& o) {
  switch (v.k) {
    case Val::Null: o += "null"; break;
    case Val::Bool: o += v.b ? "true" : "false"; break;
    case Val::Int:
    case Val::Flt: spell_number(s, sp, v, o); break;
    case Val::Str: spell_string(s, sp, v.s, o, false); break;
    case Val::Raw: o += v.s; break;
    case Val::Arr:
      o += '[';
      put_ws(s, sp, o);
      for (size_t i = 0; i < v.a.size(); i++) {
        if (i) {
          o += ',';
          put_ws(s, sp, o);
        }
        spell(s, sp, v.a[i], o);
        put_ws(s, sp, o);
      }
      o += ']';
      break;
    case Val::Obj:
      o += '{';
      put_ws(s, sp, o);
      for (size_t i = 0; i < v.o.size(); i++) {
        if (i) {
          o += ',';
          put_ws(s, sp, o);
        }
        spell_string(s, sp, v.o[i].first, o, true);
        put_ws(s, sp, o);
        o += ':';
        put_ws(s, sp, o);
        spell(s, sp, v.o[i].second, o);
        put_ws(s, sp, o);
      }
      o += '}';
      break;
  }
}

// replace generated floats by literal-carrying floats (value = strtod(literal))
inline void attach_float_literals(Src& s, Val& v, size_t maxlen = 40) {
  if (v.k == Val::Flt) {
    if (s.chance(2, 3)) {
      v.s = gen_float_literal(s, maxlen);
      v.d = strtod(v.s.c_str(), nullptr);
    } else {
      if (!std::isfinite(v.d)) v.d = 0.5;
      char b[40];
      snprintf(b, sizeof b, "%.17g", v.d);
      v.s = b;
      if (!strpbrk(b, ".eE")) v.s += ".0";
    }
  }
  if (v.k == Val::Arr)
    for (auto& e : v.a) attach_float_literals(s, e, maxlen);
  if (v.k == Val::Obj)
    for (auto& kv : v.o) attach_float_literals(s, kv.second, maxlen);
}

inline std::string spell_document(Src& s, Spell& sp, const Val& v) {
  std::string o;
  put_ws(s, sp, o);
  spell(s, sp, v, o);
  put_ws(s, sp, o);
  return o;
}

}  // namespace gen
