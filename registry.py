# Registry of properties: sources, configurations, budgets, evidence texts.
# check.py and gen_manifest.py read this file.

def D(**kw):
    return ["-D%s=%s" % (k, v) for k, v in kw.items()]


CONFIGS = {
    "default": {"defines": []},
    # dialect rows: COMMENTS, NAN, INFINITY, DECODE_UNICODE (pairwise covering)
    "dial0000": {"defines": D(ARDUINOJSON_ENABLE_COMMENTS=0, ARDUINOJSON_ENABLE_NAN=0, ARDUINOJSON_ENABLE_INFINITY=0, ARDUINOJSON_DECODE_UNICODE=0)},
    "dial1111": {"defines": D(ARDUINOJSON_ENABLE_COMMENTS=1, ARDUINOJSON_ENABLE_NAN=1, ARDUINOJSON_ENABLE_INFINITY=1, ARDUINOJSON_DECODE_UNICODE=1)},
    "dial1010": {"defines": D(ARDUINOJSON_ENABLE_COMMENTS=1, ARDUINOJSON_ENABLE_NAN=0, ARDUINOJSON_ENABLE_INFINITY=1, ARDUINOJSON_DECODE_UNICODE=0)},
    "dial0101": {"defines": D(ARDUINOJSON_ENABLE_COMMENTS=0, ARDUINOJSON_ENABLE_NAN=1, ARDUINOJSON_ENABLE_INFINITY=0, ARDUINOJSON_DECODE_UNICODE=1)},
    # number rows: USE_DOUBLE, USE_LONG_LONG
    "num01": {"defines": D(ARDUINOJSON_USE_DOUBLE=0, ARDUINOJSON_USE_LONG_LONG=1)},
    "num10": {"defines": D(ARDUINOJSON_USE_DOUBLE=1, ARDUINOJSON_USE_LONG_LONG=0)},
    "num00": {"defines": D(ARDUINOJSON_USE_DOUBLE=0, ARDUINOJSON_USE_LONG_LONG=0)},
    # Arduino mocks
    "arduino": {"arduino": True, "defines": D(ARDUINOJSON_ENABLE_ARDUINO_STRING=1, ARDUINOJSON_ENABLE_ARDUINO_STREAM=1, ARDUINOJSON_ENABLE_ARDUINO_PRINT=1, ARDUINOJSON_ENABLE_PROGMEM=1)},
    "tsan": {"tsan": True, "defines": []},
}


def geom(sid, cap, pools, slen):
    return {"defines": D(ARDUINOJSON_SLOT_ID_SIZE=sid, ARDUINOJSON_POOL_CAPACITY=cap, ARDUINOJSON_INITIAL_POOL_COUNT=pools, ARDUINOJSON_STRING_LENGTH_SIZE=slen),
            "geom": (sid, cap, pools, slen)}


GEOMS = {
    "g4_256_4_2": (4, 256, 4, 2), "g1_16_4_1": (1, 16, 4, 1), "g2_128_4_2": (2, 128, 4, 2), "g1_4_1_1": (1, 4, 1, 1),
    "g1_2_2_1": (1, 2, 2, 1), "g1_8_3_2": (1, 8, 3, 2), "g1_64_3_1": (1, 64, 3, 1), "g2_2_1_4": (2, 2, 1, 4),
    "g2_16_4_4": (2, 16, 4, 4), "g4_2_1_1": (4, 2, 1, 1), "g1_128_2_1": (1, 128, 2, 1), "g1_6_4_2": (1, 6, 4, 2),
}
for _k, _v in GEOMS.items():
    CONFIGS[_k] = geom(*_v)

PROPS = {}

PROPS["C07"] = {
    "title": "Round trips and format conversions preserve the document",
    "src": "c07.cpp",
    "level": "exploration",
    "technique": "property-based round-trip testing (generated documents; JSON and MessagePack round trips, byte-identical re-encode, cross-format differential with two equality judges)",
    "rule": "case = generated value (all scalar kinds at boundaries, strings over all byte values, nesting up to 9, 20% with NaN/Inf and bin/ext for the MessagePack part) built through the mutation API with generated C++ types and string source kinds; non-trivial = at least 3 nodes and at least one 64-bit integer, float or string needing an escape; distinct = hash of the value rendering",
    "level_text": "Random exploration with an explicit round-trip oracle: integers/strings/structure must be exact, floats within the C12 print+parse tolerance for JSON and equal in value for MessagePack, and the MessagePack re-encoding byte-identical. Nothing is proved; the evidence states how many distinct non-trivial documents were tried.",
    "level_note": "Trusts: the harness' own observation through the public read API, glibc strtod/snprintf for the cross-format input text, clang ASan/UBSan.",
    "quick": {"cases": 1200000, "floor_evaluations": 1000000, "floor_nontrivial": 200000},
    "thorough": {"cases": 6000000, "floor_evaluations": 1000000},
    "design_ref": "DESIGN.md §4 C07",
}

PROPS["C01"] = {
    "title": "Valid JSON deserializes to exactly the value it denotes",
    "src": "c01.cpp",
    "level": "exploration",
    "technique": "property-based testing: generated value -> generated RFC 8259 spelling -> deserializeJson -> observation must equal the generated value (oracle independent of the parser)",
    "rule": "case = generated value (duplicate keys, empty/NUL/prefix keys, literal-carrying floats, depth up to 40 with matching nesting limit) spelled with generated whitespace, escape forms (raw / short / \\uXXXX in random hex case / surrogate pairs) and number spellings, delivered through a generated input kind into a generated destination state (fresh, previous content, previously overflowed, member, element, handle); non-trivial = the text contains an escape, a duplicate key, a nested container, a fraction/exponent number, a non-ASCII byte or non-minimal whitespace; distinct = hash of the text",
    "level_text": "Random exploration of the space (value x spelling x destination x input kind); the expected value is the generator's input, so the oracle does not share code with the parser under test. Integers and strings must be exact, floats within the C12 tolerance of their literal, the rest of the document unchanged for nested destinations.",
    "level_note": "Trusts: observation through the public read API; glibc strtold for literal values; ASan/UBSan and the library's own DEBUG assertions as additional oracles. Position of a repeated key's surviving member is not judged (first or last position accepted).",
    "quick": {"cases": 1500000, "floor_evaluations": 1000000, "floor_nontrivial": 300000},
    "thorough": {"cases": 20000000, "floor_evaluations": 5000000},
}
