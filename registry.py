# Registry of properties: sources, configurations, budgets, evidence texts.
# check.py and gen_manifest.py read this file.

def D(**kw):
    return ["-D%s=%s" % (k, v) for k, v in kw.items()]


CONFIGS = {
    "default": {"defines": []},
    # dialect rows: COMMENTS, NAN, INFINITY, DECODE_UNICODE (pairwise covering)
    "dial0000": {"defines": D(ARDUINOJSON_ENABLE_COMMENTS=0, ARDUINOJSON_ENABLE_NAN=0, ARDUINOJSON_ENABLE_INFINITY=0, ARDUINOJSON_DECODE_UNICODE=0)},
    "dial1111": {"defines": D(ARDUINOJSON_ENABLE_COMMENTS=1, ARDUINOJSON_ENABLE_NAN=1, ARDUINOJSON_ENABLE_INFINITY=1, ARDUINOJSON_DECODE_UNICODE=1)},
    "dial1010": {"defines": D(ARDUINOJSON_ENABLE_COMMENTS=1, ARDUINOJSON_ENABLE_NAN=0, ARDUINOJSON_ENABLE_INFINITY=1, ARDUINOJSON_DECODE_UNICODE=0)},
    "dial0101": {"defines": D(ARDUINOJSON_ENABLE_COMMENTS=0, ARDUINOJSON_ENABLE_NAN=1, ARDUINOJSON_ENABLE_INFINITY=0, ARDUINOJSON_DECODE_UNICODE=1)},
    # number rows: USE_DOUBLE, USE_LONG_LONG
    "num01": {"defines": D(ARDUINOJSON_USE_DOUBLE=0, ARDUINOJSON_USE_LONG_LONG=1)},
    "num10": {"defines": D(ARDUINOJSON_USE_DOUBLE=1, ARDUINOJSON_USE_LONG_LONG=0)},
    "num00": {"defines": D(ARDUINOJSON_USE_DOUBLE=0, ARDUINOJSON_USE_LONG_LONG=0)},
    # Arduino mocks
    "arduino": {"arduino": True, "defines": D(ARDUINOJSON_ENABLE_ARDUINO_STRING=1, ARDUINOJSON_ENABLE_ARDUINO_STREAM=1, ARDUINOJSON_ENABLE_ARDUINO_PRINT=1, ARDUINOJSON_ENABLE_PROGMEM=1)},
    "tsan": {"tsan": True, "defines": []},
    # free macros no other row touches: no automatic shrinkToFit, no alignment padding, another default nesting limit,
    # other thresholds for the exponent notation of printed floats
    "misc1": {"defines": D(ARDUINOJSON_AUTO_SHRINK=0, ARDUINOJSON_ENABLE_ALIGNMENT=0, ARDUINOJSON_DEFAULT_NESTING_LIMIT=4,
                           ARDUINOJSON_POSITIVE_EXPONENTIATION_THRESHOLD="1e5", ARDUINOJSON_NEGATIVE_EXPONENTIATION_THRESHOLD="1e-3")},
}


def geom(sid, cap, pools, slen):
    return {"defines": D(ARDUINOJSON_SLOT_ID_SIZE=sid, ARDUINOJSON_POOL_CAPACITY=cap, ARDUINOJSON_INITIAL_POOL_COUNT=pools, ARDUINOJSON_STRING_LENGTH_SIZE=slen),
            "geom": (sid, cap, pools, slen)}


GEOMS = {
    "g4_256_4_2": (4, 256, 4, 2), "g1_16_4_1": (1, 16, 4, 1), "g2_128_4_2": (2, 128, 4, 2), "g1_4_1_1": (1, 4, 1, 1),
    "g1_2_2_1": (1, 2, 2, 1), "g1_8_3_2": (1, 8, 3, 2), "g1_64_3_1": (1, 64, 3, 1), "g2_2_1_4": (2, 2, 1, 4),
    "g2_16_4_4": (2, 16, 4, 4), "g4_2_1_1": (4, 2, 1, 1), "g1_128_2_1": (1, 128, 2, 1), "g1_6_4_2": (1, 6, 4, 2),
    "g2_32_3_1": (2, 32, 3, 1),  # string length type narrower than the slot id type
    "g1_5_2_1": (1, 5, 2, 1), "g1_15_4_2": (1, 15, 4, 2), "g2_255_2_2": (2, 255, 2, 2),  # capacity divides NULL_SLOT
    "g1_128_4_1": (1, 128, 4, 1), "g1_255_2_1": (1, 255, 2, 1),  # more inline pools than the slot ids can address
}
for _k, _v in GEOMS.items():
    CONFIGS[_k] = geom(*_v)
# a small geometry combined with JsonFloat = float: extension slots then hold 64-bit integers only
CONFIGS["g1_16_4_1_f32"] = geom(1, 16, 4, 1)
CONFIGS["g1_16_4_1_f32"]["defines"] = CONFIGS["g1_16_4_1_f32"]["defines"] + D(ARDUINOJSON_USE_DOUBLE=0)
# ... and with 32-bit integers: extension slots then hold doubles only (histories keep their integers in 32 bits)
CONFIGS["g1_16_4_1_ll0"] = geom(1, 16, 4, 1)
CONFIGS["g1_16_4_1_ll0"]["defines"] = CONFIGS["g1_16_4_1_ll0"]["defines"] + D(ARDUINOJSON_USE_LONG_LONG=0)

PROPS = {}

PROPS["C07"] = {
    "title": "Round trips and format conversions preserve the document",
    "src": "c07.cpp",
    "level": "exploration",
    "technique": "property-based round-trip testing (generated documents; JSON and MessagePack round trips, byte-identical re-encode, cross-format differential with two equality judges)",
    "rule": "case = generated value (all scalar kinds at boundaries, strings over all byte values, nesting up to 9, 20% with NaN/Inf and bin/ext for the MessagePack part) built through the mutation API with generated C++ types and string source kinds; non-trivial = at least 3 nodes and at least one 64-bit integer, float or string needing an escape; distinct = hash of the value rendering",
    "level_text": "Random exploration with an explicit round-trip oracle: integers/strings/structure must be exact, floats within the C12 print+parse tolerance for JSON and equal in value for MessagePack, and the MessagePack re-encoding byte-identical. Nothing is proved; the evidence states how many distinct non-trivial documents were tried.",
    "level_note": "Trusts: the harness' own observation through the public read API, glibc strtod/snprintf for the cross-format input text, clang ASan/UBSan.",
    "quick": {"cases": 1200000, "floor_evaluations": 1000000, "floor_nontrivial": 200000},
    "thorough": {"cases": 6000000, "floor_evaluations": 1000000},
    "design_ref": "DESIGN.md §4 C07",
}

PROPS["C01"] = {
    "title": "Valid JSON deserializes to exactly the value it denotes",
    "src": "c01.cpp",
    "level": "exploration",
    "technique": "property-based testing: generated value -> generated RFC 8259 spelling -> deserializeJson -> observation must equal the generated value (oracle independent of the parser)",
    "rule": "case = generated value (duplicate keys, empty/NUL/prefix keys, literal-carrying floats, depth up to 40 with matching nesting limit) spelled with generated whitespace, escape forms (raw / short / \\uXXXX in random hex case / surrogate pairs) and number spellings, delivered through a generated input kind into a generated destination state (fresh, previous content, previously overflowed, member, element, handle); non-trivial = the text contains an escape, a duplicate key, a nested container, a fraction/exponent number, a non-ASCII byte or non-minimal whitespace; distinct = hash of the text",
    "level_text": "Random exploration of the space (value x spelling x destination x input kind); the expected value is the generator's input, so the oracle does not share code with the parser under test. Integers and strings must be exact, floats within the C12 tolerance of their literal, the rest of the document unchanged for nested destinations.",
    "level_note": "Trusts: observation through the public read API; glibc strtold for literal values; ASan/UBSan and the library's own DEBUG assertions as additional oracles. Position of a repeated key's surviving member is not judged (first or last position accepted).",
    "quick": {"cases": 1500000, "floor_evaluations": 1000000, "floor_nontrivial": 300000},
    "thorough": {"cases": 20000000, "floor_evaluations": 5000000},
}

DIALECT_ROWS = ["dial0000", "dial1111", "dial1010", "dial0101"]
PROPS["C10"] = {
    "title": "deserializeJson accepts exactly the documented dialect and classifies the rest",
    "src": "c10.cpp",
    "level": "exploration",
    "technique": "differential testing against an independent three-valued dialect reference parser: bounded-exhaustive token sequences, every byte value at escape/hex positions, generated dialect texts and mutations; 4 build configurations",
    "rule": "sweep: every sequence of <= N tokens over a 26-token alphabet (brackets, separators, quoted/single-quoted/unquoted strings, numbers, keywords, blanks, comments, NaN, Infinity, lone '-', unterminated string, cut \\u escape, '%', NUL) at nesting limit 10, and at limits 0/1/2 for sequences of <= M tokens, plus every byte value at each \\uXXXX hex position and after a backslash in 4 string contexts; random: dialect-mode spellings of generated values and 1-3 byte-level mutations of them, nesting limit from {0,1,2,3,5,10}. Non-trivial (sweep) = >= 3 tokens, not EmptyInput and not failing at its first token, counted per distinct token sequence; non-trivial (random) = every text, distinct by hash of (text, limit). Inputs in declared don't-care zones are executed for safety and counted under excluded_unspecified.",
    "level_text": "Both directions of 'exactly' are decided against a reference acceptor written from the property text: nothing outside the dialect may be accepted, nothing inside rejected, and each rejection must carry the code the classification rules give. The token-sequence space up to the stated length is enumerated completely per configuration row (exhaustive sub-space); beyond it, random texts and mutations.",
    "level_note": "Trusts the reference parser (ref/json_ref.hpp, 3.4% of the swept inputs fall in declared zones where two outcomes are admitted) and glibc strtod for number values. Only 4 of the 16 option combinations are built (pairwise covering).",
    "quick": {"configs": DIALECT_ROWS, "cases": 200000, "sweep": True, "params": {"toklen": 5, "toklen_limits": 4},
              "exhaustive_claim": True, "exhaustive_note": "all token sequences of length <= 5 over the 26-token alphabet (limit 10; limits 0,1,2 for length <= 4) and all byte values at hex/escape positions, per configuration row",
              "floor_evaluations": 40000000, "floor_nontrivial": 1000000},
    "thorough": {"configs": DIALECT_ROWS, "cases": 8000000, "sweep": True, "params": {"toklen": 6, "toklen_limits": 5},
                 "exhaustive_claim": True, "exhaustive_note": "all token sequences of length <= 6 (limits 0,1,2 for length <= 5), per configuration row",
                 "floor_evaluations": 100000000, "fuzz_s": 300},
}

PROPS["C12"] = {
    "title": "Numbers survive text: exact integers, bounded error, never a wrong magnitude",
    "src": "c12.cpp",
    "level": "exploration",
    "technique": "property-based testing of number parsing/printing against exact integer arithmetic and glibc strtold with the tolerance bands of the property; stratified (quick) or exhaustive (thorough) sweep of all float32 bit patterns for printing",
    "rule": "random cases: integer literals around every width/power-of-ten boundary +-40 with 0-30 leading zeros and both signs; decimal literals of 1-3000 digits with the value's decade swept over 1e-5000..1e5000 (emphasis 1e+-38, 1e+-300..330), parsed inside a document when <= 63 characters and through as<T>() on linked and copied strings at any length; printing of floats, doubles (all exponents, notation thresholds) and 64-bit integers. Sweep: every k-th float32 bit pattern (all 2^32 in the thorough tier), every float/double exponent x boundary mantissas, every integer boundary literal. Non-trivial: literal with >= 2 of {fraction, exponent, > 15 digits, leading zeros} or an integer literal; printed value finite and non-zero; distinct by hash of the literal / bit pattern (sweep cases are distinct by construction).",
    "level_text": "Exploration with an explicit numeric oracle: in-range integer literals must be exact; other literals must lie within 1e-6 (1e-13 when more than seven significant digits are written) of the strtold value inside [1e-300,1e300], and be +-inf / +-0 or within tolerance outside; printed literals must be RFC 8259 numbers within 1e-6*max(1,|x|) (float) or 1e-9*max(1,|x|) (double). The float32 printing space is enumerated completely in the thorough tier.",
    "level_note": "Trusts glibc strtold (64-bit mantissa, error far below the tolerances). Doubles that a float represents exactly are excluded from the 1e-9 bound by the known finding KF-1 (still checked against 1e-6).",
    "quick": {"cases": 2500000, "sweep": True, "params": {"float_stride": 1024}, "floor_evaluations": 5000000, "floor_nontrivial": 1000000},
    "thorough": {"cases": 100000000, "sweep": True, "params": {"all_floats": 1}, "exhaustive_claim": True,
                 "exhaustive_note": "all 2^32 float32 bit patterns through set(float)+serializeJson", "floor_evaluations": 4000000000},
}

PROPS["C12"]["regress"] = ["int_2p64", "float_path_overflow", "exponent_early_exit", "long_numeric_string"]
PROPS["C10"]["regress"] = ["hex_colon", "exponent_early_exit", "top_number_blank"]

PROPS["C13"] = {
    "title": "Typed extraction is exact when it fits and zero otherwise, never undefined",
    "src": "c13.cpp",
    "level": "exploration",
    "technique": "property-based testing against an __int128 / long double reference under UBSan (float-cast-overflow, signed-overflow): strided (quick) or exhaustive (thorough) sweep of all 2^32 values of each 32-bit storage kind x 13 target types, boundary enumeration for 64-bit kinds, generated numeric strings, copyArray into exactly sized heap blocks",
    "rule": "case = one stored number (int32/uint32/float/int64/uint64/double at powers of two +-4, type limits +-halves, NaN/Inf/denormals, random) or one numeric string (linked and copied; integers, decimals, up to 1200 digits, tolerated and non-numeric spellings) or one copyArray call (1-D, 2-D, char[N] with shorter/longer sources); every case is extracted as the ten integer types, float, double and bool, with is<T>() and operator| ; non-trivial = every stored-number case (all are compared with the reference on 13 targets), distinct by rendering; sweep cases are distinct by construction",
    "level_text": "Exploration with a reference computed in wider arithmetic; UBSan turns an out-of-range float-to-integer cast inside the library into a failure. The thorough tier enumerates all 2^32 values of the three 32-bit storage kinds (exhaustive sub-space).",
    "level_note": "Non-integral values strictly between T_max and T_max+1 (or T_min-1 and T_min) may give the truncated limit or 0 (don't-care zone, counted). String conversion is judged relative to the library's own as<double>() of the same string (whose accuracy is C12's subject).",
    "quick": {"cases": 1500000, "sweep": True, "params": {"stride": 1021}, "floor_evaluations": 5000000, "floor_nontrivial": 1000000},
    "thorough": {"cases": 30000000, "sweep": True, "params": {"all32": 1}, "exhaustive_claim": True,
                 "exhaustive_note": "all 2^32 values of each 32-bit storage kind (int32, uint32, float) x 13 target types", "floor_evaluations": 12000000000},
    "regress": ["linked_string_as_double", "long_numeric_string"],
}

PROPS["C17"] = {
    "title": "Unicode escapes decode correctly for every code point; escaping is the inverse",
    "src": "c17.cpp",
    "level": "exploration",
    "technique": "exhaustive enumeration of the escape space against an own 20-line UTF-8 encoder and the reference printer, plus random mixed strings",
    "rule": "sweep (complete): every \\uXXXX code unit in lower/upper/mixed hex case as whole string, key and embedded; every high/low surrogate pair; every lone surrogate and (high, non-low) combination for safety; every single byte and byte pair as string value and as key through set -> serializeJson -> deserializeJson. Every enumerated case is distinct by construction and non-trivial (it is compared with the reference), except lone surrogates which are safety-only. Random: strings of 1-12 scalars mixing raw and escaped spellings.",
    "level_text": "The quantifier of the property (all code units, all surrogate pairs, all bytes and byte pairs) is a finite space and is enumerated completely on every run (exhaustive: true); the oracle is an independent UTF-8 encoder and an independent escaper.",
    "level_note": "ARDUINOJSON_DECODE_UNICODE=1 (default) only, as the property states. Content of strings with unpaired surrogates is not judged (only absence of crashes).",
    "quick": {"cases": 200000, "sweep": True, "exhaustive_claim": True,
              "exhaustive_note": "65536 code units x 3 hex cases x 3 contexts, 1024x1024 surrogate pairs, 256 + 65536 byte contents x {value,key}",
              "floor_evaluations": 1500000, "floor_nontrivial": 1000000},
    "thorough": {"cases": 20000000, "sweep": True, "exhaustive_claim": True,
                 "exhaustive_note": "65536 code units x 3 hex cases x 3 contexts, 1024x1024 surrogate pairs, 256 + 65536 byte contents x {value,key}",
                 "floor_evaluations": 1500000},
    "regress": ["nul_in_key"],
}

PROPS["C02"] = {
    "title": "serializeJson emits exactly the document, on every kind of destination",
    "src": "c02.cpp",
    "level": "exploration",
    "technique": "property-based differential testing: all destinations must receive identical bytes; bytes compared with an independent canonical printer (float-free documents) or parsed back by an independent RFC 8259 parser; every buffer capacity 0..len+2 inside canary-guarded and exactly sized (ASan) blocks; reference pretty printer",
    "rule": "case = a document obtained from a generated value through the mutation API (generated C++ types / string kinds, raw values, arbitrary string bytes, non-finite floats, nesting up to 30, empty containers), through deserializeJson of a generated spelling, or through deserializeMsgPack of a reference encoding; for each: std::string, std::ostream, custom writer, char[N], (void*,size) at every capacity 0..len+2 (len <= 96; else edges and 12 random), compact and pretty, plus Arduino String/Print in the arduino configuration; non-trivial = the document has >= 2 nodes or a string needing an escape or a 64-bit integer, and at least one truncating capacity was exercised; distinct = hash of the value rendering",
    "level_text": "Exploration with an explicit oracle for each clause of the property: identical bytes and counts on all destinations, measure == length, exact text for float-free documents, reference parser acceptance and value equality otherwise, pretty == compact modulo whitespace and exact pretty layout, prefix/terminator/no-overwrite for every capacity.",
    "level_note": "The reference parser accepts raw control and non-UTF-8 bytes inside strings (C17 fixes that the serializer passes them through). Documents whose raw values are not valid JSON fragments skip the parse-back and pretty-vs-compact sub-checks.",
    "quick": {"configs": ["default", "arduino"], "cases": 500000, "floor_evaluations": 800000, "floor_nontrivial": 200000},
    "thorough": {"configs": ["default", "arduino"], "cases": 3000000, "floor_evaluations": 2000000},
}

PROPS["C08"] = {
    "title": "serializeMsgPack emits one conforming MessagePack object equal to the document",
    "src": "c08.cpp",
    "level": "exploration",
    "technique": "property-based testing against an independent MessagePack decoder, with sizes and magnitudes concentrated on every header boundary; all destinations and buffer capacities; large-item cases (65535/65536)",
    "rule": "case = document built through the API from a generated value whose integers sit within 1 of every header boundary (fixint/8/16/32/64, both signs), strings of 30-33 / 254-257 bytes, containers of 14-17 elements, floats that are integral / float-representable / non-finite, bin and ext through MsgPackBinary/MsgPackExtension and serialized(); sweep: linked strings of 65534-70000 bytes, copied string of 65535, arrays and objects of 65535/65536; non-trivial = the value contains an item within 1 of a header boundary; distinct = hash of the value rendering",
    "level_text": "Exploration: the reference decoder must accept the output as exactly one object consuming all bytes and denoting the observed document (integers exact, floats bit-exact or an equal integer when integral, bin/ext verbatim); count == bytes == measureMsgPack on every destination; prefix-only semantics for every capacity.",
    "level_note": "Trusts ref/msgpack_ref.hpp (written from the specification). Minimality of the chosen header width is not demanded (the property asks for a conforming encoding).",
    "quick": {"configs": ["default", "arduino"], "cases": 400000, "sweep": True, "floor_evaluations": 500000, "floor_nontrivial": 100000},
    "thorough": {"configs": ["default", "arduino"], "cases": 5000000, "sweep": True, "floor_evaluations": 3000000},
}

NUM_ROWS = ["default", "num01", "num10", "num00"]
PROPS["C09"] = {
    "title": "Well-formed MessagePack decodes to the value it encodes; malformed is classified",
    "src": "c09.cpp",
    "level": "exploration",
    "technique": "property-based testing with an independent encoder making generated (non-minimal) width choices; every proper prefix; single-byte corruptions and injected 0xC1 / non-string keys judged by an independent strict decoder; 4 number configurations; bit-level doubleToFloat sub-check",
    "rule": "case = generated value (all families incl. bin/ext in minimal and forced widths, NaN/Inf, duplicate keys 10%, depth up to 30 with nesting limit 0..32) encoded by the reference encoder with a generated width per item; executed: the full encoding, every proper prefix (all offsets when <= 160 bytes, else the first 24 and 24 random), 4 single-byte corruptions, 0xC1 at a value position, a non-string key; non-trivial = the encoding uses >= 1 non-minimal width or >= 2 nesting levels; distinct = hash of the encoding",
    "level_text": "Exploration against a reference codec written from the specification: Ok + equal value (integers exact or null when outside the configured range, floats equal in value or rounded to float when doubles are disabled, bin/ext retained so that re-serialization decodes to the same value), IncompleteInput for every proper prefix, InvalidInput for 0xC1 and non-string keys, reference verdict for corruptions.",
    "level_note": "Declared string lengths above the 65535-byte capacity may give NoMemory before the truncation is noticed (zone, counted). Duplicate map keys are executed for safety only.",
    "quick": {"configs": NUM_ROWS, "cases": 120000, "floor_evaluations": 300000, "floor_nontrivial": 40000,
              "require_labels": ["c1-injected", "nonstring-key-injected", "nonminimal-width", "has-bin-ext"]},
    "thorough": {"configs": NUM_ROWS, "cases": 4000000, "floor_evaluations": 10000000},
}

PROPS["C11"] = {
    "title": "Filtering equals projecting the unfiltered result",
    "src": "c11.cpp",
    "level": "exploration",
    "technique": "metamorphic / differential property-based testing: filtered run vs projection (independent 40-line specification) of the unfiltered run; Filter(true) vs no filter compared on code, document, consumed bytes and allocator call log; ledger peak/cumulative comparison on the same consumed prefix",
    "rule": "case = (input, filter, nesting limit): input = generated value spelled as JSON (strict or dialect) or encoded as MessagePack (generated widths), 20% mutated into malformed inputs; filter = derived from the input's shape (keep/drop/replace nodes by true, false, null, numbers, strings, {}, [], wildcard members, absent keys, 0-2 element array filters) or deliberately mismatched (object over array, array over object) or an unrelated generated value; passed as Filter(JsonDocument&) or Filter(JsonVariantConst); every case is non-trivial (three executions are compared); distinct = hash of (input, filter)",
    "level_text": "Exploration: for every accepted input the filtered document must equal the projection computed by ref/filter_ref.hpp, for JSON and MessagePack; Filter(true) must be indistinguishable from no filter on every input; filtering must not request more memory when it consumed no more input; no crash for any pair (ASan/UBSan/DEBUG asserts).",
    "level_note": "Zones (counted): filter entries equal to the number 1, explicit null next to a wildcard, raw values or NUL/duplicate keys in the filter, duplicate keys in the input. Memory is compared only when the filtered run consumed no more input than the unfiltered one (errors inside discarded parts may go unnoticed, so the filtered run may legitimately parse further).",
    "quick": {"cases": 300000, "floor_evaluations": 200000, "floor_nontrivial": 100000,
              "require_labels": ["projection-proper", "shape-mismatch", "memory-judged", "malformed-input"]},
    "thorough": {"cases": 8000000, "floor_evaluations": 4000000},
    "regress": ["msgpack_wildcard_over_array"],
}

PROPS["C15"] = {
    "title": "The nesting limit bounds recursion for every input",
    "src": "c15.cpp",
    "level": "exploration",
    "technique": "property-based testing with a depth-tracking skeleton generator (JSON and MessagePack, all header families), limits around the actual depth, filters that keep/discard/mismatch the deep branch; stack consumption measured inside a custom reader and compared with canonical depth-L chains; adversarial inputs of up to 10^5 opening brackets",
    "rule": "case = bracket skeleton with a spine of depth 0..300 and side branches (deep branch first/middle/last, keys a/b/deep), rendered as JSON and as MessagePack (fix/16/32 headers), nesting limit uniform in 0..255 or within 1 of the depth or small, one of 16 filters (none, true, false, null, {}, [], member/wildcard/array filters, scalars), optional garbage tail; sweep: chains of 2L+2 / 10^3 / 10^5 opening brackets or headers in 5 forms x 8 limits x 4 filters; non-trivial = |depth - L| <= 1 or a filter is present and depth > L; distinct = hash of (skeleton, L, format, filter)",
    "level_text": "Exploration: TooDeep iff a container is opened at depth L+1 (also inside discarded parts), Ok implies nesting() <= L, reads stop at the offending bracket/header, and the stack used never exceeds that of the canonical depth-L array/object chains measured in the same process by more than 512 bytes, whatever the length and content of the input.",
    "level_note": "Termination/recursion is observed through the stack pointer inside the reader callback (lowest address seen), which bounds the recursion depth at every read; frames that never read are not observed.",
    "quick": {"cases": 200000, "sweep": True, "floor_evaluations": 150000, "floor_nontrivial": 30000},
    "thorough": {"cases": 8000000, "sweep": True, "floor_evaluations": 4000000},
}

PROPS["C16"] = {
    "title": "One call consumes one document from a stream",
    "src": "c16.cpp",
    "level": "exploration",
    "technique": "property-based testing with counting readers: generated sequences of documents written back to back, reader position checked after every call, metamorphic replacement of the unread tail by garbage",
    "rule": "case = 1-8 generated documents of every top-level kind (object, array, string, literal, integer, float) concatenated with generated inter-document blanks (none where the grammar allows; at least one after a number) as JSON, or back to back as MessagePack with generated widths; delivered through a counting custom reader, std::istream and (arduino configuration) Stream; non-trivial = >= 2 documents of different last-token kinds with at least one number that is not last; distinct = hash of the stream",
    "level_text": "Exploration: call i must return Ok and document i, the reader must then be exactly at the end of the value (at most one byte further for a JSON number), EmptyInput after the last document, and replacing the unread tail by garbage must change neither results nor consumption.",
    "level_note": "std::istream positions are only checked while the stream is good(); chunked delivery is covered by the istream's own buffering and by the Arduino Stream mock (a short readBytes count is end of input for the library, so partial chunks are not a legal reader behaviour).",
    "quick": {"configs": ["default", "arduino"], "cases": 200000, "floor_evaluations": 300000, "floor_nontrivial": 50000},
    "thorough": {"configs": ["default", "arduino"], "cases": 8000000, "floor_evaluations": 8000000},
    "regress": ["numbers_on_a_stream"],
}

PROPS["C18"] = {
    "title": "Comparison operators form one coherent relation that agrees with the values",
    "src": "c18.cpp",
    "level": "exploration",
    "technique": "property-based testing of algebraic laws over all six operators in both operand orders, plus agreement with a value model (__int128 for integer pairs, double otherwise; bytes for strings/raw; order-insensitive members for objects)",
    "rule": "case = pool of 6-11 values in two documents with deliberate twins (the same number as int32/int64/uint64/float/double, 2^53+1, +-2^63, 2^64-1, +-0, NaN/Inf, equal/prefix strings in linked and copied storage incl. NUL, equal/prefix raw values, copies/permutations/prefixes of earlier containers, booleans, null, an unbound reference); every ordered pair (incl. a value with itself) x 12 operator results, and every pool value against C++ scalars of 9 types, const char*, std::string and nullptr in both orders; non-trivial = the pool contains mixed number storage, containers or prefix-related strings; distinct = hash of the pool rendering",
    "level_text": "Exploration: the six laws of the property are asserted on every pair; equality and numeric ordering must agree with the model. NaN operands, bool-vs-number and objects with duplicate keys are judged for the laws only (zones, counted).",
    "level_note": "Ordering between strings and between containers is only judged for coherence, as the property says.",
    "quick": {"cases": 150000, "floor_evaluations": 100000, "floor_nontrivial": 50000},
    "thorough": {"cases": 6000000, "floor_evaluations": 3000000},
    "regress": [],
}

C03_ROWS = ["default", "dial0000", "dial1111", "dial1010", "dial0101", "num01", "num10", "num00", "g1_16_4_1", "g2_128_4_2", "arduino"]
PROPS["C03"] = {
    "title": "Deserializers are memory-safe, input-bounded and source-independent on any bytes",
    "src": "c03.cpp",
    "level": "exploration",
    "technique": "property-based fuzzing under ASan/UBSan with the library's DEBUG assertions on: generated valid/truncated/mutated/random inputs delivered through every input kind from exactly sized heap blocks; differential between kinds; counting reader for the progress bound; inspector + reuse checks on the resulting document; 11 build configurations; libFuzzer in the thorough tier",
    "rule": "case = (format, bytes, nesting limit 0..255, one of 15 filters): bytes from valid generated texts/encodings (40%), their truncations (25%), mutations incl. huge declared lengths, 10^4 brackets, lone surrogates, splices (25%), random bytes (10%); each case is delivered through every applicable input kind (const char*, char*, (ptr,size) x3, std::string, string_view, istream, custom reader, variant; Arduino String/Stream/flash in the arduino row) and all outcomes are compared; non-trivial = code other than EmptyInput and >= 4 bytes; distinct = hash of (bytes, filter, limit)",
    "level_text": "Exploration (fuzzing with a semantic oracle): no sanitizer report or library assertion, one of the six codes, no byte requested twice or after the end, identical code and document for all input kinds, and a well-formed document afterwards (public traversal, internal invariants through the inspector hook, serializers agree with measure, clear() returns every block, the document can be reused).",
    "level_note": "Termination is replaced by the checkable progress bound (reads <= size+1 through the counting reader; a genuine hang hits the shard timeout and is reported as inconclusive). Out-of-bounds reads are observed through ASan redzones around exactly sized input blocks.",
    "quick": {"configs": C03_ROWS, "cases": 100000, "floor_evaluations": 800000, "floor_nontrivial": 50000},
    "thorough": {"configs": C03_ROWS, "cases": 1500000, "floor_evaluations": 10000000, "fuzz_s": 300},
    "regress": ["msgpack_wildcard_over_array"],
    "fuzz": True,
}

PROPS["C04"] = {
    "title": "The document is the tree its API describes, after every history",
    "src": "c04.cpp",
    "level": "exploration",
    "technique": "model-based (stateful) property testing: operations generated from a plain ordered-tree model, executed on the library, every observable and every live reference compared after every step; bounded-exhaustive enumeration of all histories of <= N operations over a 26-operation alphabet on tiny pools; internal invariants through the inspector hook",
    "rule": "random: histories of 20-400 operations on 1-3 documents (set of every scalar type and string source kind, to<>, add, add<T>, member/element writes through documents, variants, proxies of depth 1-3 and JsonArray/JsonObject handles incl. writes beyond the end, removal by index/key/iterator, clear, copies between values of the same or another document, copyArray, copy/move construction and assignment, swap, shrinkToFit, deserialization into documents/values/proxies, handle acquisition by reads, read-only probes); non-trivial = the history contains an insertion after a removal, a copy between values or a document-level move/swap/assign, and at least one live reference survived >= 3 mutations; distinct = hash of the operation list. enum: every sequence of N operations over a fixed 26-operation alphabet (counted per distinct sequence).",
    "level_text": "Exploration of the history space with the tree model as oracle: after every operation the observation of every document and of every still-existing reference must equal the model exactly, return values must match where the API defines them, reads must not change anything nor call the allocator, and the slot pools / free list / string reference counts must satisfy their invariants. Short histories on 2- and 4-slot pools are enumerated exhaustively.",
    "level_note": "Assignments in which source and destination overlap inside one document are excluded while known finding KF-2 (alias_overlap) is open; they are counted under excluded_known. References are considered dead after document-level operations and shrinkToFit (slots may move).",
    "quick": {"configs": ["default", "g1_2_2_1", "g1_4_1_1", "g2_128_4_2"], "cases": 16000, "floor_evaluations": 400000, "floor_nontrivial": 100000,
              "per_config": {"g1_2_2_1": {"enum_draws": 4, "params": {"enum_depth": 4}}, "g1_4_1_1": {"enum_draws": 4, "params": {"enum_depth": 4}}},
              "exhaustive_claim": True, "exhaustive_note": "all histories of 4 operations over the 26-operation alphabet on pool geometries (1,2,2,1) and (1,4,1,1)"},
    "thorough": {"configs": ["default", "g1_2_2_1", "g1_4_1_1", "g2_128_4_2", "g1_16_4_1", "g2_2_1_4", "g4_2_1_1"], "cases": 800000, "floor_evaluations": 4000000,
                 "per_config": {"g1_2_2_1": {"enum_draws": 5, "params": {"enum_depth": 5}}, "g1_4_1_1": {"enum_draws": 5, "params": {"enum_depth": 5}}},
                 "exhaustive_claim": True, "exhaustive_note": "all histories of 5 operations over the 26-operation alphabet on pool geometries (1,2,2,1) and (1,4,1,1)"},
}

GEOM_ROWS = list(GEOMS.keys())
PROPS["C19"] = {
    "title": "Capacity limits are clean edges and semantics do not depend on pool geometry",
    "src": "c19.cpp",
    "level": "exploration",
    "technique": "cross-configuration model-based testing: the same model-generated histories (same seed) executed by one binary per (slot id size, pool capacity, inline pool count, string length size) row and compared with the tree model; limit-seeking scenarios generated from each row's constants (fill to the slot limit, strings at maxLen-1/maxLen/maxLen+1 through four routes, maximal reference counts), judged by clean-failure, intactness, inspector and reuse oracles",
    "rule": "case = a C04 history (20-400 operations) executed under each of 12 geometry rows incl. non-power-of-two capacities and pool counts, or (1 in 50; 1 in 400 on 2-byte ids) a limit scenario: fill an array of ints / of 64-bit numbers / an object until insertion fails, check the exact limit position, overflowed(), intact content, remove k values and refill, clear and reuse; strings of maxLen-1, maxLen, maxLen+1 through set, key, JSON text and MessagePack; NULL_SLOT references to one copied string then removals. Non-trivial as in C04 for histories; every limit scenario is non-trivial; distinct by hash.",
    "level_text": "Exploration: every row must agree with the geometry-independent model on every history (hence with every other row), and at a limit the operation must fail cleanly at exactly the documented position with the document intact, no identifier / length / reference count wrapping (inspector invariants), and the document usable again after removals and after clear().",
    "level_note": "4-byte slot ids and 4-byte string lengths cannot be exhausted in this sandbox (64 GiB / 4 GiB): for those rows only the differential part applies (labelled in the evidence). Capacity 256 with 1-byte ids is not representable by the library and is left out.",
    "quick": {"configs": GEOM_ROWS, "cases": 10000, "floor_evaluations": 100000, "floor_nontrivial": 10000, "regress_all_configs": True,
              "require_labels": ["slot-limit-hit", "string-limit-hit", "refcount-limit-hit"]},
    "thorough": {"configs": GEOM_ROWS, "cases": 300000, "floor_evaluations": 3000000},
    "regress": ["slot_limit_after_shrink", "limits"],
}

PROPS["C06"] = {
    "title": "Every block comes from and returns to the user's allocator exactly once",
    "src": "c06.cpp",
    "level": "exploration",
    "technique": "model-based histories on instrumented allocators (one ledger per document: live-block map, foreign/double release detection, always-moving realloc under ASan), inspector invariants for slot reuse and string reference counts, allocation hook asserting free-list emptiness at every pool request, and a peak-memory bound for the deserializers on inputs with huge declared lengths",
    "rule": "case = (2/3) a C04 history on 2-3 documents owning distinct ledgers (so that swap / move / assign / copy-construct must carry the allocator), or (1/3) a JSON or MessagePack input (valid, mutated, truncated, headers announcing up to 2^32-1 bytes or elements, strings up to 70000 bytes) deserialized through a counting reader on a ledger; non-trivial = a history in which a string whose text is still used elsewhere loses a user, or a document is moved/swapped/assigned between different ledgers, or an input whose declared length exceeds its actual length; distinct = hash of the history / input",
    "level_text": "Exploration: every release/resize must target a block live in the same ledger; zero live blocks after clear() and after destruction for every document including moved-from, swapped, copy-constructed and assigned ones; no allocator call during reads; at every pool request the free list is empty and the previous pool is full; string nodes have references == users, no unused node and no duplicate content after every operation; deserialization peak <= 3*sizeofString(maxLength) + 2 pools + 1 KiB + 64 bytes per consumed byte.",
    "level_note": "The memory bound is vacuous with 4-byte string lengths (one maximum-size string is 4 GiB) and is skipped there. Pool requests are only watched for operations addressed through variants/proxies (not the JsonDocument-level calls).",
    "quick": {"configs": ["default", "g1_16_4_1", "g1_4_1_1", "g2_2_1_4"], "cases": 40000, "floor_evaluations": 120000, "floor_nontrivial": 20000,
              "require_labels": ["shared-string-user-removed", "document-moved-between-ledgers", "pool-requests-watched", "declared-length-exceeds-input"]},
    "thorough": {"configs": ["default", "g1_16_4_1", "g1_4_1_1", "g2_2_1_4", "g2_128_4_2"], "cases": 2000000, "floor_evaluations": 5000000},
}

PROPS["C14"] = {
    "title": "How a string is stored (linked, copied, de-duplicated) is unobservable",
    "src": "c14.cpp",
    "level": "exploration",
    "technique": "lockstep differential testing: one model-generated history executed once per string source kind (8 kinds, 10 with the Arduino mocks), full observable vector compared across the runs and with the tree model after every step; source buffers of copied kinds are overwritten right after each call; inspector reference counts",
    "rule": "case = history of 10-60 string-heavy operations (values, keys, member writes through proxies and handles, copies, removals, document-level operations) on 2 documents, with texts that are empty, contain NUL or bytes >= 0x80, look numeric (\"3.25\", \"1e3\", \"18446744073709551615\", \"-0\") or repeat (sharing), executed in lockstep with every string argument given as: generated mix, std::string, string_view, JsonString (copied), const char* (linked), char*, JsonString (linked), char[], Arduino String, flash string; observable vector = JSON, pretty JSON and MessagePack serializations, is<T>() and as<T>() for 9 numeric types / bool / const char* / JsonString / std::string / string_view, comparisons with 7 string probes and 6 scalars in both orders, key lookups by every kind incl. prefixes and extensions, size and nesting; non-trivial = >= 10 operations with a removal and at least one vector comparison; distinct = hash of the operation list",
    "level_text": "Exploration with a differential oracle: any observable (other than JsonString::isLinked()) that differs between two storage kinds of the same text fails the check, as does any difference from the model after a source buffer was overwritten (copy independence) or after one user of a shared string was changed or removed.",
    "level_note": "Strings containing NUL are given through sized kinds in every run (zero-terminated kinds cannot carry them).",
    "quick": {"configs": ["default", "arduino"], "cases": 8000, "floor_evaluations": 12000, "floor_nontrivial": 2500},
    "thorough": {"configs": ["default", "arduino", "g1_16_4_1"], "cases": 800000, "floor_evaluations": 1500000},
    "regress": ["doc_set_char_array", "doc_assign_char_array", "linked_string_as_double"],
}

PROPS["C05"] = {
    "title": "Allocation failure is reported and never corrupts the document",
    "src": "c05.cpp",
    "level": "fault_enumeration",
    "technique": "fault enumeration over allocator calls: each generated scenario (model-based API history or deserialization input) is first run fault-free to count its N fallible calls, then re-run from the recorded choice sequence under every single-failure position, every fail-from-k schedule and 8 random multi-failure subsets; judged by a failure-shape oracle (model state, or reported failure + overflowed() + nothing changed outside the modified path + internal invariants), then clear/reuse/destruction checks on an instrumented allocator",
    "rule": "scenario = (2/3) a C04 history of 4-25 operations on 1-2 documents (strings incl. long ones, 64-bit numbers and doubles needing extension slots, copies between documents, deserialization into values, document-level copies) or (1/3) a valid JSON / MessagePack input with or without a filter deserialized into a non-empty document; for a scenario with N fallible calls: fail-nth(k) and fail-from(k) for every k in 1..N (64 sampled positions when N > 64, labelled) plus 8 random subsets; non-trivial = a fault run in which the allocator actually refused a call while the target document was non-empty (histories) / refused a call (inputs); distinct = hash of (scenario, plan); evaluations counts scenarios, executions counts fault runs",
    "level_text": "Complete enumeration of single-failure and fail-from positions per generated scenario (fault_enumeration), over randomly generated scenarios. After every operation the document must equal the model's next state, or be a well-formed failure shape: the operation reported (false / unbound / NoMemory), overflowed() is true, every value outside the path being modified is unchanged, pools/free list/strings consistent (leaked slots allowed). A refused call always sets overflowed(). At the end clear() returns every block and resets overflowed(), the documents work again once allocation succeeds, destruction leaves no block and no foreign release.",
    "level_note": "After a failure-shape outcome the model is re-synchronised with the observed document and all references are given up, so the history continues under the plan. While overflowed() is still set (sticky) operations that report failure are judged by the failure shape even if memory was available. Shrinking reallocations never fail (the property speaks of growing reallocations).",
    "quick": {"configs": ["default", "g1_4_1_1"], "cases": 3000, "floor_evaluations": 5000, "floor_nontrivial": 20000,
              "require_labels": ["history-scenario", "deserialization-scenario", "failure-shape-outcomes"]},
    "thorough": {"configs": ["default", "g1_4_1_1", "g1_16_4_1", "g2_2_1_4"], "cases": 200000, "floor_evaluations": 400000},
}

PROPS["C20"] = {
    "title": "Distinct documents can be used from distinct threads without synchronisation",
    "src": "c20.cpp",
    "tsan": True,
    "level": "exploration",
    "technique": "generated per-thread programs (model-checked API history, build, serialize and deserialize both formats with a shared filter, copy/compare against a shared read-only document, number parsing) run on 2/4/8 threads x 50 repetitions under ThreadSanitizer (happens-before race detection, schedule-independent for accesses that occur) and under ASan/UBSan, with a sequential-transcript differential",
    "rule": "case = 2, 4 or 8 threads, each running its own generated program (12-operation model-checked history on two private documents; a generated document with floats serialized as JSON, pretty JSON and MessagePack; four deserializations incl. a filter read from the shared document as JsonVariantConst; copies from and comparisons with the shared document; literal parsing) 50 times after a start barrier, while one further document is only read; the transcript of every repetition must equal the transcript of the same program run sequentially before; non-trivial (ASan build) = a deserialization was observed to overlap a float serialization of another thread (relaxed counters), (TSan build) every case; distinct = hash of the thread seeds",
    "level_text": "Exploration of schedules only as far as ThreadSanitizer makes the verdict schedule-independent: an unsynchronised pair of accesses to library state is reported whenever both accesses occur in the run, whatever the interleaving. The TSan build contains no synchronisation besides the start barrier and join. A second, ASan build runs the same cases to catch corruption TSan does not model.",
    "level_note": "Races that need a specific interleaving and are invisible to happens-before analysis are out of reach; the library uses no atomics or locks. The default allocator (malloc) is shared and assumed thread-safe.",
    "quick": {"configs": ["tsan", "default"], "cases": 160, "floor_evaluations": 300, "floor_nontrivial": 100, "timeout": 1500},
    "thorough": {"configs": ["tsan", "default"], "cases": 10000, "floor_evaluations": 20000},
}

for _id in ("C01", "C03", "C04", "C05", "C10", "C11", "C15"):
    PROPS[_id]["fuzz"] = True
    PROPS[_id]["thorough"]["fuzz_s"] = 300
PROPS["C04"]["fuzz_max_len"] = 2048
PROPS["C05"]["fuzz_max_len"] = 1024

# quick budgets re-measured on 16 cores: every quick tier spends >= ~15 s generating cases
PROPS["C05"]["quick"].update({"cases": 10000, "floor_evaluations": 15000, "floor_nontrivial": 100000})
PROPS["C11"]["quick"].update({"cases": 1500000, "floor_evaluations": 1000000, "floor_nontrivial": 500000})
PROPS["C12"]["quick"].update({"cases": 10000000, "params": {"float_stride": 256}, "floor_evaluations": 20000000, "floor_nontrivial": 5000000})
PROPS["C13"]["quick"].update({"cases": 6000000, "params": {"stride": 251}, "floor_evaluations": 20000000, "floor_nontrivial": 5000000})
PROPS["C15"]["quick"].update({"cases": 1500000, "floor_evaluations": 1000000, "floor_nontrivial": 200000})
PROPS["C16"]["quick"].update({"cases": 600000, "floor_evaluations": 1000000, "floor_nontrivial": 150000})
PROPS["C17"]["quick"].update({"cases": 2000000, "floor_evaluations": 3000000, "floor_nontrivial": 2000000})
PROPS["C18"]["quick"].update({"cases": 600000, "floor_evaluations": 500000, "floor_nontrivial": 300000})
PROPS["C20"]["quick"].update({"cases": 500, "floor_evaluations": 900, "floor_nontrivial": 300})

PROPS["C05"]["quick"].update({"cases": 5000, "floor_evaluations": 8000, "floor_nontrivial": 50000})
PROPS["C11"]["quick"].update({"cases": 600000, "floor_evaluations": 500000, "floor_nontrivial": 200000})
PROPS["C12"]["quick"].update({"cases": 4000000, "params": {"float_stride": 512}, "floor_evaluations": 8000000, "floor_nontrivial": 2000000})

# libFuzzer raw mode: first byte 0x01 selects the raw-input branch of C10 (below(12)==1), second byte the limit
PROPS["C10"]["fuzz_raw_seeds"] = [("extras/fuzzing/json_seed_corpus", [1, 0])]
PROPS["C10"]["fuzz_dict"] = "corpus/json.dict"
PROPS["C10"]["fuzz_max_len"] = 512

# C03 byte decoder: msgpack flag (below(5) >= 3 -> msgpack), then below(10)==1 selects raw input
PROPS["C03"]["fuzz_raw_seeds"] = [("extras/fuzzing/json_seed_corpus", [0, 0, 0, 0, 1]), ("extras/fuzzing/msgpack_seed_corpus", [4, 0, 0, 0, 1])]
PROPS["C03"]["fuzz_dict"] = "corpus/json.dict"
PROPS["C03"]["fuzz_max_len"] = 700

# C01 "whatever the destination held before is entirely replaced": also on a geometry where every
# document of more than two slots needs a heap pool table (1 inline pool of 2 slots)
PROPS["C01"]["quick"].update({"configs": ["default", "g2_2_1_4"], "per_config": {"g2_2_1_4": {"cases": 300000}}})
PROPS["C01"]["thorough"].update({"configs": ["default", "g2_2_1_4"], "per_config": {"g2_2_1_4": {"cases": 4000000}}})

# C15: the stack bound is also measured with comments enabled (comment skipping is part of the parser's recursion)
PROPS["C15"]["quick"].update({"configs": ["default", "dial1111"], "per_config": {"dial1111": {"cases": 300000}}})
PROPS["C15"]["thorough"].update({"configs": ["default", "dial1111"], "per_config": {"dial1111": {"cases": 2000000}}})

# C07 also with JsonFloat = float (the float instantiation of the number printer / MessagePack narrowing)
PROPS["C07"]["quick"].update({"configs": ["default", "num01"], "per_config": {"num01": {"cases": 400000}}})
PROPS["C07"]["thorough"].update({"configs": ["default", "num01"], "per_config": {"num01": {"cases": 3000000}}})

# C18 also with JsonFloat = float: mixed comparisons must still be made as doubles
PROPS["C18"]["quick"].update({"configs": ["default", "num01"], "per_config": {"num01": {"cases": 200000}}})
PROPS["C18"]["thorough"].update({"configs": ["default", "num01"], "per_config": {"num01": {"cases": 2000000}}})

# C20: a fresh process whose first documents are created by concurrent threads (both builds)
PROPS["C20"]["regress"] = ["cold_start"]
PROPS["C20"]["quick"]["regress_all_configs"] = True
PROPS["C20"]["thorough"]["regress_all_configs"] = True

# second group of libFuzzer targets (structure-aware decoding of the same generators; C09 also raw bytes)
for _id in ("C02", "C06", "C07", "C08", "C09", "C14", "C16", "C18"):
    PROPS[_id]["fuzz"] = True
    PROPS[_id]["thorough"]["fuzz_s"] = 240
PROPS["C09"]["fuzz_raw_seeds"] = [("extras/fuzzing/msgpack_seed_corpus", [1, 10])]
PROPS["C09"]["fuzz_max_len"] = 600
PROPS["C06"]["fuzz_max_len"] = 2048
PROPS["C14"]["fuzz_max_len"] = 2048

PROPS["C02"]["quick"].update({"cases": 200000, "floor_evaluations": 300000, "floor_nontrivial": 60000, "require_labels": ["doc-from-history", "doc-from-json", "doc-from-msgpack"]})
PROPS["C08"]["quick"].update({"cases": 250000, "floor_evaluations": 400000, "floor_nontrivial": 60000, "require_labels": ["doc-from-history", "large-item"]})

# thorough budgets rebalanced after the first complete thorough run (7.5 h): the two heaviest tiers
# are cut, the cheap ones are raised; target about 5 h for all twenty on 16 cores
PROPS["C14"]["thorough"]["cases"] = 250000     # was 800000 (2.3 h)
PROPS["C14"]["thorough"]["floor_evaluations"] = 600000
PROPS["C06"]["thorough"]["cases"] = 900000     # was 2000000 (1.2 h)
PROPS["C04"]["thorough"]["cases"] = 500000     # was 800000
PROPS["C07"]["thorough"]["cases"] = 40000000   # was 6000000 (1 min)
PROPS["C17"]["thorough"]["cases"] = 100000000  # was 20000000 (1.5 min)
PROPS["C18"]["thorough"]["cases"] = 40000000   # was 6000000
PROPS["C02"]["thorough"]["cases"] = 10000000   # was 3000000
PROPS["C08"]["thorough"]["cases"] = 15000000   # was 5000000
PROPS["C16"]["thorough"]["cases"] = 30000000   # was 8000000

# configuration rows added after round 3 of the seeded changes showed that mistakes hide behind macros
PROPS["C11"]["quick"].update({"configs": ["default", "dial1111"], "per_config": {"dial1111": {"cases": 200000}}})
PROPS["C11"]["thorough"].update({"configs": ["default", "dial1111"], "per_config": {"dial1111": {"cases": 2000000}}})
PROPS["C16"]["quick"].update({"configs": ["default", "arduino", "dial1111"], "per_config": {"dial1111": {"cases": 200000}}})
PROPS["C16"]["thorough"].update({"configs": ["default", "arduino", "dial1111"], "per_config": {"dial1111": {"cases": 4000000}}})
# (USE_LONG_LONG=0 is not added: on this LP64 host `long` is 64 bits wide while the storage is 32, an artefact no real target has)
PROPS["C13"]["quick"].update({"configs": ["default", "num01"], "per_config": {"num01": {"cases": 500000, "sweep": False}}})
PROPS["C13"]["thorough"].update({"configs": ["default", "num01"], "per_config": {"num01": {"cases": 5000000, "sweep": False}}})
PROPS["C02"]["quick"].update({"configs": ["default", "arduino", "num01"], "per_config": {"num01": {"cases": 60000}}})
PROPS["C08"]["quick"].update({"configs": ["default", "arduino", "num01"], "per_config": {"num01": {"cases": 80000, "sweep": False}}})

# extension slots under the other number configuration (slot accounting must not depend on USE_DOUBLE)
PROPS["C19"]["quick"]["configs"] = GEOM_ROWS + ["g1_16_4_1_f32", "g1_16_4_1_ll0"]
PROPS["C19"]["thorough"]["configs"] = GEOM_ROWS + ["g1_16_4_1_f32", "g1_16_4_1_ll0"]
PROPS["C06"]["quick"]["configs"] = PROPS["C06"]["quick"]["configs"] + ["g1_16_4_1_f32", "g1_16_4_1_ll0"]
PROPS["C06"]["thorough"]["configs"] = PROPS["C06"]["thorough"]["configs"] + ["g1_16_4_1_f32", "g1_16_4_1_ll0"]
PROPS["C12"]["quick"]["require_labels"] = ["decimal-literal-of-tens-of-thousands-of-digits"]
# C12 literals with JsonFloat = float: the float analogue of the parsing clause (no NaN, no wrong magnitude, 1e-6)
PROPS["C12"]["quick"].update({"configs": ["default", "num01"], "per_config": {"num01": {"cases": 1500000, "sweep": False, "params": {"only_literals": 1}}}})
PROPS["C12"]["thorough"].update({"configs": ["default", "num01"], "per_config": {"num01": {"cases": 20000000, "sweep": False, "params": {"only_literals": 1}}}})
PROPS["C14"]["quick"]["require_labels"] = PROPS["C14"]["quick"].get("require_labels", []) + ["many-sharers-of-one-string"]

# second rebalancing: the whole thorough tier should fit in about 4 h on 16 cores
PROPS["C01"]["thorough"]["cases"] = 8000000
PROPS["C01"]["thorough"]["per_config"] = {"g2_2_1_4": {"cases": 1500000}}
PROPS["C02"]["thorough"]["cases"] = 5000000
PROPS["C03"]["thorough"]["cases"] = 1000000
PROPS["C03"]["thorough"]["floor_evaluations"] = 6000000
PROPS["C04"]["thorough"]["cases"] = 300000
PROPS["C04"]["thorough"]["floor_evaluations"] = 2000000
PROPS["C05"]["thorough"]["cases"] = 100000
PROPS["C05"]["thorough"]["floor_evaluations"] = 200000
PROPS["C06"]["thorough"]["cases"] = 400000
PROPS["C06"]["thorough"]["floor_evaluations"] = 2000000
PROPS["C08"]["thorough"]["cases"] = 8000000
PROPS["C09"]["thorough"]["cases"] = 2500000
PROPS["C09"]["thorough"]["floor_evaluations"] = 6000000
PROPS["C12"]["thorough"]["cases"] = 50000000
PROPS["C14"]["thorough"]["cases"] = 120000
PROPS["C14"]["thorough"]["floor_evaluations"] = 300000
PROPS["C16"]["thorough"]["cases"] = 15000000
PROPS["C17"]["thorough"]["cases"] = 60000000
PROPS["C18"]["thorough"]["cases"] = 20000000
PROPS["C19"]["thorough"]["cases"] = 150000
PROPS["C19"]["thorough"]["floor_evaluations"] = 1500000
for _id in PROPS:
    if PROPS[_id]["thorough"].get("fuzz_s"):
        PROPS[_id]["thorough"]["fuzz_s"] = 150

# ---- evidence texts: what the generators gained during the seeded campaign (appended to the rules above)
PROPS["C02"]["rule"] += "; std::ostream also with formatting state set (field width, fill, hex/showbase/uppercase/boolalpha, left) and through operator<<; row num01 (JsonFloat = float)"
PROPS["C03"]["rule"] += "; 1 in 12 generated documents is wide (up to 260 nodes); aftermath: the same input is deserialized a second time into the same document (same code and value), then the document is cleared and reused; a raw-bytes branch (libFuzzer: the repository's seed corpora) feeds the bytes as they are"
PROPS["C04"]["rule"] = PROPS["C04"]["rule"].replace("removal by index/key/iterator,", "removal by index/key/iterator/variant key, writes through operator= as well as set(), operations through null keys and through variants that are neither index nor key (must have no effect), JsonObject::set() from an unbound or wrong-kind source,")
PROPS["C05"]["rule"] += "; JSON inputs are spelled in the accepted dialect half of the time (unquoted keys, single quotes)"
PROPS["C09"]["rule"] += "; 1 in 16 cases is a raw byte string (libFuzzer: mutations of extras/fuzzing/msgpack_seed_corpus) judged by the verdict of the reference decoder on those bytes"
PROPS["C12"]["rule"] += " 1 in 2500 decimal cases has 32755-32785, 65525-65555 or up to 73000 digits (string path). Row num01 (JsonFloat = float): literals only, judged by the float analogue (no NaN, +-inf / +-0 beyond [1e-37,1e38], 1e-5 inside)."
PROPS["C13"]["rule"] += "; row num01 (JsonFloat = float): stored doubles are the float nearest to the generated value"
PROPS["C14"]["rule"] += "; 1 in 600 cases is the many-sharers scenario (254-258 or 65534-65538 users of one copied string, one removed / overwritten / re-assigned, the others read back, inspector and ledger checked); every string node is also compared with itself variant-against-variant; writes go through operator= as well as set()"
PROPS["C15"]["rule"] += "; sweep also holds flat long inputs (20000 blanks / elements / members / characters / comments of both kinds / MessagePack array16 and map16 entries) whose stack use must stay within the depth-L baseline; row dial1111 (comments enabled)"
PROPS["C16"]["rule"] += "; every stream is read once more through a generated filter (positions after each call must be the same as without: skipped values are consumed like parsed ones); strings whose spelling ends in escaped backslashes or quotes are planted; dialect spellings; bin/ext items incl. empty payloads; std::istream with a chunked streambuf; row dial1111 with comments between and inside documents"
PROPS["C18"]["rule"] += "; row num01 (JsonFloat = float): mixed comparisons are still made as doubles"
PROPS["C19"]["rule"] += "; rows where the inline pools exceed what the slot ids address ((1,128,4,1), (1,255,2,1)) and rows combining (1,16,4,1) with USE_DOUBLE=0 / USE_LONG_LONG=0; the string-limit scenario checks that a refused string leaves no block behind"
PROPS["C20"]["rule"] += "; regression witness cold_start (both builds): a fresh process whose first documents are created by eight concurrently started threads, compared with sequential transcripts made afterwards; every thread program's document carries items with explicit MessagePack length fields (str8/16, bin, ext, array16) and a spelling with \\uXXXX escapes and surrogate pairs"
PROPS["C06"]["rule"] += "; rows g1_16_4_1_f32 / g1_16_4_1_ll0 (extension slots under USE_DOUBLE=0 / USE_LONG_LONG=0)"
PROPS["C01"]["rule"] += "; row g2_2_1_4 (one inline pool of two slots: previous content and new text both need a heap pool table); float literals up to the documented 63 characters"
PROPS["C11"]["rule"] += "; row dial1111: comments inside kept and discarded parts"

# row misc1 (AUTO_SHRINK=0, ENABLE_ALIGNMENT=0, DEFAULT_NESTING_LIMIT=4, other exponentiation thresholds)
PROPS["C07"]["quick"]["configs"] = PROPS["C07"]["quick"]["configs"] + ["misc1"]
PROPS["C07"]["quick"]["per_config"]["misc1"] = {"cases": 300000}
PROPS["C07"]["thorough"]["configs"] = PROPS["C07"]["thorough"]["configs"] + ["misc1"]
PROPS["C07"]["thorough"]["per_config"]["misc1"] = {"cases": 3000000}
PROPS["C04"]["quick"]["configs"] = PROPS["C04"]["quick"]["configs"] + ["misc1"]
PROPS["C04"]["thorough"]["configs"] = PROPS["C04"]["thorough"]["configs"] + ["misc1"]
PROPS["C03"]["quick"]["configs"] = PROPS["C03"]["quick"]["configs"] + ["misc1"]
PROPS["C03"]["thorough"]["configs"] = PROPS["C03"]["thorough"]["configs"] + ["misc1"]
PROPS["C15"]["quick"]["configs"] = PROPS["C15"]["quick"]["configs"] + ["misc1"]
PROPS["C15"]["quick"]["per_config"]["misc1"] = {"cases": 200000}
PROPS["C15"]["thorough"]["configs"] = PROPS["C15"]["thorough"]["configs"] + ["misc1"]
PROPS["C15"]["thorough"]["per_config"]["misc1"] = {"cases": 1000000}
PROPS["C02"]["quick"]["configs"] = PROPS["C02"]["quick"]["configs"] + ["misc1"]
PROPS["C02"]["quick"]["per_config"]["misc1"] = {"cases": 60000}
PROPS["C02"]["thorough"]["configs"] = PROPS["C02"]["thorough"].get("configs", ["default", "arduino"]) + ["misc1"]
PROPS["C02"]["thorough"].setdefault("per_config", {})["misc1"] = {"cases": 1000000}
PROPS["C12"]["quick"]["configs"] = PROPS["C12"]["quick"]["configs"] + ["misc1"]
PROPS["C12"]["quick"]["per_config"]["misc1"] = {"cases": 1500000, "sweep": False}
PROPS["C12"]["thorough"]["configs"] = PROPS["C12"]["thorough"]["configs"] + ["misc1"]
PROPS["C12"]["thorough"]["per_config"]["misc1"] = {"cases": 10000000, "sweep": False}
for _id in ("C02", "C03", "C04", "C07", "C12", "C15"):
    PROPS[_id]["rule"] += "; row misc1 (AUTO_SHRINK=0, ENABLE_ALIGNMENT=0, DEFAULT_NESTING_LIMIT=4, exponentiation thresholds 1e5 / 1e-3)"
PROPS["C03"]["rule"] += "; the options are passed in every documented form (none = default limit, limit alone, filter alone, both in either order)"
PROPS["C04"]["rule"] += "; references are also obtained through iterators (begin()/++, JsonPair::value()); raw values are given as std::string, const char*, char* and (pointer, size)"
# (no USE_LONG_LONG=0 row for C08: on this LP64 host `long` has 64 bits while the storage has 32, and the pinned tree
#  already writes integral doubles beyond 32 bits as 0 there; a real target of that configuration has a 32-bit long)
PROPS["C02"]["rule"] += "; a writer with a byte budget (count = bytes it accepted, stored bytes = that prefix); unbound sources (serialize as null, measure agrees)"
PROPS["C08"]["rule"] += "; a writer with a byte budget; unbound source"
PROPS["C15"]["rule"] += "; the limit is given before or after the filter, or left out when it equals the configured default; row misc1 (DEFAULT_NESTING_LIMIT=4)"
PROPS["C11"]["quick"]["configs"] = PROPS["C11"]["quick"]["configs"] + ["num01"]
PROPS["C11"]["quick"]["per_config"]["num01"] = {"cases": 200000}
PROPS["C11"]["thorough"]["configs"] = PROPS["C11"]["thorough"]["configs"] + ["num01"]
PROPS["C11"]["thorough"]["per_config"]["num01"] = {"cases": 2000000}
PROPS["C11"]["rule"] += "; row num01 (JsonFloat = float: skipped float64 items must still be skipped whole)"
PROPS["C13"]["rule"] += "; float-class numeric strings: zero stays zero and values inside [1e-300,1e300] convert to a finite double within 1e-6 (their exact accuracy is C12's)"
