#!/usr/bin/env python3
"""Driver for the /verif property checks.

  check.py run <ID> [--tier quick|thorough]     run one property (MANIFEST quick_cmd / thorough_cmd)
  check.py replay <ID> <file> [--config C]      re-execute a saved replay file
  check.py setup                                pre-build every quick-tier binary
  check.py list                                 list properties

Exit 0: nothing outside the known findings failed.  Exit 1: VIOLATION line(s) printed.
Exit 2: harness / infrastructure error (never reported as a violation).
"""
import hashlib
import json
import os
import shutil
import struct
import subprocess
import sys
import time
from concurrent.futures import ThreadPoolExecutor

ROOT = os.path.dirname(os.path.abspath(__file__))
REPO = os.environ.get("VERIF_REPO", "/repo")
BUILD = os.path.join(ROOT, "build")
NCPU = int(os.environ.get("VERIF_JOBS", "16"))
GUARD = "BBLANCHON_ARDUINOJSON_VERIF"

sys.path.insert(0, ROOT)
from registry import PROPS, CONFIGS  # noqa: E402

BASE_FLAGS = [
    "-std=gnu++17", "-g1", "-O1", "-fno-omit-frame-pointer",
    "-fsanitize=address,undefined,float-cast-overflow", "-fno-sanitize-recover=all",
    "-DARDUINOJSON_DEBUG=1", "-D%s=1" % GUARD, "-Wno-deprecated-declarations",
]
TSAN_FLAGS = [
    "-std=gnu++17", "-g1", "-O1", "-fsanitize=thread", "-DARDUINOJSON_DEBUG=1", "-D%s=1" % GUARD,
    "-Wno-deprecated-declarations", "-pthread",
]
RUN_ENV = {
    "ASAN_OPTIONS": "detect_leaks=0:abort_on_error=0:allocator_may_return_null=1:detect_stack_use_after_return=0:max_allocation_size_mb=4096:allocator_release_to_os_interval_ms=-1:quarantine_size_mb=32:hard_rss_limit_mb=3000",
    "UBSAN_OPTIONS": "print_stacktrace=1:halt_on_error=1",
    "TSAN_OPTIONS": "halt_on_error=1:second_deadlock_stack=1:exitcode=66",
}


def log(*a):
    print(*a, flush=True)


def sha_tree(paths):
    h = hashlib.sha256()
    for base in paths:
        if os.path.isfile(base):
            files = [base]
        else:
            files = []
            for d, _, fs in os.walk(base):
                for f in fs:
                    files.append(os.path.join(d, f))
        for f in sorted(files):
            h.update(f.encode())
            try:
                with open(f, "rb") as fh:
                    h.update(fh.read())
            except OSError:
                pass
    return h.hexdigest()


_repo_hash = None


def repo_hash():
    global _repo_hash
    if _repo_hash is None:
        _repo_hash = sha_tree([os.path.join(REPO, "src"), os.path.join(REPO, "extras/tests/Helpers")])
    return _repo_hash


_harness_hash = None


def harness_hash():
    global _harness_hash
    if _harness_hash is None:
        paths = [os.path.join(ROOT, d) for d in ("engine", "ref", "lib", "gen")]
        paths += sorted(os.path.join(ROOT, "props", f) for f in os.listdir(os.path.join(ROOT, "props")) if f.endswith(".hpp"))
        _harness_hash = sha_tree(paths)
    return _harness_hash


def binary_path(prop, cfgname, fuzz=False):
    p = PROPS[prop]
    cfg = CONFIGS[cfgname]
    src = os.path.join(ROOT, "props", p["src"])
    flags = flags_for(p, cfg, fuzz)
    h = hashlib.sha256()
    h.update(repo_hash().encode())
    h.update(harness_hash().encode())
    h.update(sha_tree([src]).encode())
    h.update(" ".join(flags).encode())
    key = h.hexdigest()[:20]
    d = os.path.join(BUILD, "bin")
    os.makedirs(d, exist_ok=True)
    return os.path.join(d, "%s.%s%s.%s" % (prop, cfgname, ".fuzz" if fuzz else "", key)), src, flags


def flags_for(p, cfg, fuzz):
    if p.get("tsan") and cfg.get("tsan"):
        flags = list(TSAN_FLAGS)
    else:
        flags = list(BASE_FLAGS)
    if fuzz:
        flags = [f.replace("-fsanitize=address,", "-fsanitize=fuzzer,address,") for f in flags]
        flags.append("-DVERIF_FUZZ=1")
    flags += ["-I" + os.path.join(REPO, "src")]
    if cfg.get("arduino"):
        flags += ["-I" + os.path.join(REPO, "extras/tests/Helpers")]
    flags += cfg.get("defines", [])
    flags += p.get("extra_flags", [])
    return flags


def compile_one(prop, cfgname, fuzz=False):
    out, src, flags = binary_path(prop, cfgname, fuzz)
    if os.path.exists(out):
        os.utime(out, None)
        return out, None
    cxx = PROPS[prop].get("cxx", "clang++")
    tmp = out + ".tmp%d" % os.getpid()
    cmd = [cxx] + flags + [src, "-o", tmp]
    t0 = time.time()
    r = subprocess.run(cmd, stdout=subprocess.PIPE, stderr=subprocess.STDOUT, text=True)
    if r.returncode != 0:
        return None, "compile failed (%s %s):\n%s" % (prop, cfgname, r.stdout[-6000:])
    os.replace(tmp, out)
    log("  built %s [%s] in %.1fs" % (prop, cfgname, time.time() - t0))
    return out, None


def prune_cache(limit_bytes=8 << 30):
    d = os.path.join(BUILD, "bin")
    if not os.path.isdir(d):
        return
    files = []
    total = 0
    for f in os.listdir(d):
        p = os.path.join(d, f)
        try:
            st = os.stat(p)
        except OSError:
            continue
        files.append((st.st_mtime, st.st_size, p))
        total += st.st_size
    files.sort()
    for mt, sz, p in files:
        if total <= limit_bytes:
            break
        try:
            os.remove(p)
            total -= sz
        except OSError:
            pass


def build_all(jobs):
    """jobs: list of (prop, cfg, fuzz). Returns dict or raises."""
    res = {}
    with ThreadPoolExecutor(max_workers=NCPU) as ex:
        futs = {ex.submit(compile_one, *j): j for j in jobs}
        for f, j in futs.items():
            out, err = f.result()
            if err:
                raise RuntimeError(err)
            res[j] = out
    return res


# ----------------------------------------------------------------------------- known findings
def load_known():
    known, fixed = [], []
    path = os.path.join(ROOT, "known_findings.txt")
    if not os.path.exists(path):
        return known, fixed
    for line in open(path):
        line = line.strip()
        if not line or line.startswith("#"):
            continue
        kind, _, rest = line.partition(":")
        fields = {}
        words = rest.split()
        text = []
        for w in words:
            if "=" in w and not text and w.split("=")[0] in ("property", "id", "predicate", "witness", "commit", "config"):
                k, v = w.split("=", 1)
                fields[k] = v
            else:
                text.append(w)
        fields["text"] = " ".join(text)
        if kind == "known":
            known.append(fields)
        elif kind == "fixed":
            fixed.append(fields)
    return known, fixed


# ----------------------------------------------------------------------------- running
def run_proc(cmd, timeout, env_extra=None):
    env = dict(os.environ)
    env.update(RUN_ENV)
    if env_extra:
        env.update(env_extra)
    try:
        r = subprocess.run(cmd, stdout=subprocess.PIPE, stderr=subprocess.PIPE, env=env, timeout=timeout)
        return r.returncode, r.stdout.decode("utf-8", "replace"), r.stderr.decode("utf-8", "replace")
    except subprocess.TimeoutExpired as e:
        return -999, (e.stdout or b"").decode("utf-8", "replace"), (e.stderr or b"").decode("utf-8", "replace")


def merge_counters(files):
    tot = {"evaluations": 0, "executions": 0, "trivial": 0, "counted_nontrivial": 0, "labels": {}, "unspecified": {},
           "known_excluded": {}, "samples": [], "exhaustive_done": True, "failures": 0}
    any_file = False
    for f in files:
        try:
            c = json.load(open(f))
        except Exception:
            continue
        any_file = True
        for k in ("evaluations", "executions", "trivial", "counted_nontrivial", "failures"):
            tot[k] += c.get(k, 0)
        for m in ("labels", "unspecified", "known_excluded"):
            for k, v in c.get(m, {}).items():
                tot[m][k] = tot[m].get(k, 0) + v
        for s in c.get("samples", []):
            if len(tot["samples"]) < 8:
                tot["samples"].append(s)
        tot["exhaustive_done"] = tot["exhaustive_done"] and c.get("exhaustive_done", False)
    if not any_file:
        tot["exhaustive_done"] = False
    return tot


def merge_hashes(files):
    s = set()
    for f in files:
        try:
            b = open(f, "rb").read()
        except OSError:
            continue
        n = len(b) // 8
        s.update(struct.unpack("<%dQ" % n, b[:n * 8]))
    return s


def shrink_and_report(prop, binary, cfgname, failfile, rundir, params):
    """returns (replay_path, kind, reproduced)"""
    os.makedirs(os.path.join(ROOT, "replays"), exist_ok=True)
    shrunk = failfile + ".shrunk"
    pargs = []
    for k, v in params.items():
        pargs += ["--param", "%s=%s" % (k, v)]
    known = active_known_arg()
    rc, out, err = run_proc([binary, "shrink", failfile, shrunk, "--config", cfgname] + known + pargs, 1800)
    src = shrunk if rc == 0 and os.path.exists(shrunk) else failfile
    digest = hashlib.sha256(open(src, "rb").read()).hexdigest()[:12]
    dst = os.path.join(ROOT, "replays", "%s-%s-%s.cs" % (prop, cfgname, digest))
    shutil.copy(src, dst)
    # replay up to 3 times in a fresh process
    reproduced = 0
    for _ in range(3):
        rc2, o2, e2 = run_proc([binary, "replay", dst, "--config", cfgname] + known + pargs, 600)
        if rc2 != 0:
            reproduced += 1
    return dst, reproduced, (out + err)


_known_cache = None


def active_known_arg():
    global _known_cache
    if _known_cache is None:
        known, _ = load_known()
        preds = sorted(set(k["predicate"] for k in known if k.get("predicate")))
        _known_cache = ["--known", ",".join(preds)] if preds else []
    return _known_cache


def run_property(prop, tier, seed):
    p = PROPS[prop]
    t0 = time.time()
    tierconf = p[tier] if tier in p else p["quick"]
    cfgs = tierconf.get("configs", ["default"])
    rundir = os.path.join(BUILD, "run", prop)
    shutil.rmtree(rundir, ignore_errors=True)
    os.makedirs(rundir, exist_ok=True)
    log("== %s (%s) tier=%s seed=%d configs=%s" % (prop, p["title"], tier, seed, ",".join(cfgs)))

    fuzz_s = int(os.environ.get("VERIF_FUZZ_S", tierconf.get("fuzz_s", 0)))
    jobs = [(prop, c, False) for c in cfgs]
    if fuzz_s and p.get("fuzz"):
        jobs += [(prop, c, True) for c in tierconf.get("fuzz_configs", [cfgs[0]])]
    try:
        bins = build_all(jobs)
    except RuntimeError as e:
        log("HARNESS-ERROR: " + str(e))
        return 2
    prune_cache()
    build_s = time.time() - t0

    known, fixed = load_known()
    violations = []  # (replay path)
    infra_errors = []
    known_lines = []

    # ---- witnesses of known / fixed findings for this property
    wbin = bins[(prop, cfgs[0], False)]
    for k in known:
        if k.get("property") != prop or not k.get("witness"):
            continue
        wcfg = k.get("config", cfgs[0])
        b = bins.get((prop, wcfg, False), wbin)
        rc, out, err = run_proc([b, "witness", k["witness"]] + active_known_arg(), 300)
        if rc != 0:
            known_lines.append("KNOWN-FINDING: property=%s %s [%s witness=%s]" % (prop, k["text"], k.get("id", "?"), k["witness"]))
        else:
            log("note: witness %s of known finding %s passes now (finding no longer reproduces)" % (k["witness"], k.get("id")))
    for k in fixed:
        if k.get("property") != prop or not k.get("witness"):
            continue
        rc, out, err = run_proc([wbin, "witness", k["witness"]] + active_known_arg(), 300)
        if rc != 0:
            os.makedirs(os.path.join(ROOT, "replays"), exist_ok=True)
            path = os.path.join(ROOT, "replays", "%s-witness-%s.txt" % (prop, k["witness"]))
            with open(path, "w") as fh:
                fh.write("# regression witness %s of fixed finding (%s)\n# replay: build/bin/<%s binary> witness %s\n%s\n%s\n" % (
                    k["witness"], k["text"].replace("\n", " "), prop, k["witness"], out, err[-3000:]))
            violations.append(path)

    # ---- regression witnesses (always expected to pass)
    regress_bins = [(c, bins[(prop, c, False)]) for c in cfgs] if tierconf.get("regress_all_configs") else [(cfgs[0], wbin)]
    regress_jobs = [(w, c, b) for w in p.get("regress", []) for c, b in regress_bins]

    def run_regress(job):
        w, c, b = job
        rc, out, err = run_proc([b, "witness", w] + active_known_arg(), 900)
        return job, rc, out, err

    with ThreadPoolExecutor(max_workers=NCPU) as ex:
        for (w, c, b), rc, out, err in ex.map(run_regress, regress_jobs):
            if rc != 0:
                os.makedirs(os.path.join(ROOT, "replays"), exist_ok=True)
                path = os.path.join(ROOT, "replays", "%s-%s-witness-%s.txt" % (prop, c, w))
                with open(path, "w") as fh:
                    fh.write("# regression witness %s (config %s)\n%s\n%s\n" % (w, c, out, err[-3000:]))
                violations.append(path)

    # ---- generated cases, sharded
    counters_files = []
    hash_files = []
    per_config = {}
    tasks = []
    for c in cfgs:
        b = bins[(prop, c, False)]
        ccfg = dict(tierconf)
        ccfg.update(tierconf.get("per_config", {}).get(c, {}))
        cases = int(ccfg.get("cases", 1000))
        nshards = int(ccfg.get("shards", NCPU))
        params = dict(p.get("params", {}))
        params.update(ccfg.get("params", {}))
        params["seed"] = seed
        phases = [("rand", ["--cases", str(cases)])] if cases > 0 else []
        if ccfg.get("enum_draws"):
            phases.append(("enum", ["--cases", "0", "--enum", str(ccfg["enum_draws"])]))
        if ccfg.get("sweep"):
            phases.append(("sweep", ["--cases", "0", "--sweep"]))
        for phase, pargs in phases:
            for sh in range(nshards):
                outp = os.path.join(rundir, "%s.%s.%d" % (c, phase, sh))
                cmd = [b, "run", "--seed", str(seed), "--shard", str(sh), "--nshards", str(nshards), "--out", outp,
                       "--tier", tier, "--config", c] + pargs + active_known_arg()
                for k, v in params.items():
                    cmd += ["--param", "%s=%s" % (k, v)]
                tasks.append((c, phase, sh, cmd, outp, b, params))

    timeout = int(tierconf.get("timeout", 1500 if tier == "quick" else 6 * 3600))
    if os.environ.get("VERIF_FUZZ_ONLY"):
        tasks = []

    def do(task):
        c, phase, sh, cmd, outp, b, params = task
        rc, out, err = run_proc(cmd, timeout)
        return task, rc, out, err

    results = []
    with ThreadPoolExecutor(max_workers=NCPU) as ex:
        for r in ex.map(do, tasks):
            results.append(r)

    seen_fail = {}
    for (c, phase, sh, cmd, outp, b, params), rc, out, err in results:
        counters_files.append(outp + ".json")
        hash_files.append(outp + ".hashes")
        per_config.setdefault(c, []).append(outp + ".json")
        if rc == 0:
            continue
        if rc == -999:
            infra_errors.append("shard %s.%s.%d timed out after %ds (inconclusive)" % (c, phase, sh, timeout))
            continue
        failfile = outp + ".fail.cs"
        if not os.path.exists(failfile):
            # crash: take the mmap'ed current-case record
            cur = outp + ".cur"
            if os.path.exists(cur):
                run_proc([b, "cur2cs", cur, failfile, "--config", c], 60)
            with open(outp + ".stderr", "w") as fh:
                fh.write(err[-20000:])
        if not os.path.exists(failfile):
            infra_errors.append("shard %s.%s.%d exited %d without a failing case:\n%s" % (c, phase, sh, rc, err[-2000:]))
            continue
        if len(seen_fail) >= 5:
            continue
        is_sweep = phase == "sweep" and not any(l.startswith("D ") for l in open(failfile))
        if is_sweep:
            os.makedirs(os.path.join(ROOT, "replays"), exist_ok=True)
            digest = hashlib.sha256(open(failfile, "rb").read()).hexdigest()[:12]
            dst = os.path.join(ROOT, "replays", "%s-%s-sweep-%s.cs" % (prop, c, digest))
            shutil.copy(failfile, dst)
            with open(dst, "a") as fh:
                fh.write("# stderr tail:\n" + "\n".join("# " + l for l in err[-3000:].splitlines()) + "\n")
            seen_fail[dst] = True
            violations.append(dst)
            continue
        dst, reproduced, slog = shrink_and_report(prop, b, c, failfile, rundir, params)
        if reproduced == 0:
            infra_errors.append("FLAKY-INTERNAL: failure in shard %s.%s.%d does not reproduce from %s\n%s" % (c, phase, sh, dst, err[-1500:]))
            continue
        if dst not in seen_fail:
            seen_fail[dst] = True
            with open(dst, "a") as fh:
                fh.write("# stderr tail of the failing shard:\n" + "\n".join("# " + l for l in err[-3000:].splitlines()) + "\n")
            violations.append(dst)

    # ---- libFuzzer campaign
    fuzz_info = None
    if fuzz_s and p.get("fuzz"):
        fuzz_info = run_fuzz(prop, bins, tierconf, fuzz_s, seed, rundir, violations, infra_errors)

    # ---- evidence
    tot = merge_counters(counters_files)
    hashes = merge_hashes(hash_files)
    distinct = len(hashes) + tot["counted_nontrivial"]
    wall = time.time() - t0
    cov = {
        "evaluations": tot["evaluations"],
        "executions": tot["executions"],
        "distinct_nontrivial": distinct,
        "rule": p["rule"],
        "samples": tot["samples"] or ["(no sample recorded)"],
        "labels": tot["labels"],
        "excluded_unspecified": tot["unspecified"],
        "excluded_known": tot["known_excluded"],
        "trivial": tot["trivial"],
        "configurations": {c: merge_counters(fs)["evaluations"] for c, fs in per_config.items()},
        "exhaustive": bool(merge_counters([f for f in counters_files if ".sweep." in f or ".enum." in f])["exhaustive_done"] and tierconf.get("exhaustive_claim", False)),
        "exhaustive_subspace": tierconf.get("exhaustive_note", ""),
        "build_s": round(build_s, 1),
        "known_findings_reported": known_lines,
    }
    if fuzz_info:
        cov["libfuzzer"] = fuzz_info
    ev = {
        "property_id": prop,
        "tier": tier,
        "seed": seed,
        "level": p["level"],
        "coverage": cov,
        "assumptions": p.get("assumptions", []),
        "wall_s": round(wall, 1),
        "violations": len(violations),
    }
    if "--no-evidence" not in sys.argv:
        os.makedirs(os.path.join(ROOT, "evidence"), exist_ok=True)
        with open(os.path.join(ROOT, "evidence", prop + ".json"), "w") as fh:
            json.dump(ev, fh, indent=1)
            fh.write("\n")

    for l in known_lines:
        log(l)
    log("   evaluations=%d executions=%d distinct_nontrivial=%d unspecified=%d known_excluded=%d wall=%.1fs (build %.1fs)" % (
        tot["evaluations"], tot["executions"], distinct, sum(tot["unspecified"].values()),
        sum(tot["known_excluded"].values()), wall, build_s))
    if violations:
        for v in violations[:5]:
            log("VIOLATION property=%s replay=%s" % (prop, v))
        return 1
    if infra_errors:
        for e in infra_errors:
            log("HARNESS-ERROR: " + e)
        return 2
    floor = tierconf.get("floor_evaluations", 1)
    if tot["evaluations"] < floor or distinct < tierconf.get("floor_nontrivial", 2):
        log("HARNESS-ERROR: under-run: evaluations=%d (floor %d) distinct_nontrivial=%d" % (tot["evaluations"], floor, distinct))
        return 2
    for lbl in tierconf.get("require_labels", p.get("require_labels", [])):
        if tot["labels"].get(lbl, 0) == 0:
            log("HARNESS-ERROR: generator never produced a case labelled %r" % lbl)
            return 2
    log("OK %s" % prop)
    return 0


def run_fuzz(prop, bins, tierconf, fuzz_s, seed, rundir, violations, infra_errors):
    p = PROPS[prop]
    cfgs = tierconf.get("configs", ["default"])
    info = {"seconds": fuzz_s, "configs": {}}
    for c in tierconf.get("fuzz_configs", [cfgs[0]]):
        fb = bins[(prop, c, True)]
        rb = bins.get((prop, c, False))
        corpus = os.path.join(rundir, "fuzz-corpus-" + c)
        arts = os.path.join(rundir, "fuzz-artifacts-" + c) + "/"
        os.makedirs(corpus, exist_ok=True)
        os.makedirs(arts, exist_ok=True)
        seeds = os.path.join(ROOT, "corpus", prop)
        args = [fb, corpus]
        if os.path.isdir(seeds):
            args.append(seeds)
        # raw-mode seeds: the repository's own fuzzing corpus, prefixed with the selector bytes that
        # make the property's byte decoder take its raw-input branch
        raw = p.get("fuzz_raw_seeds")
        if raw:
            n = 0
            for src_dir, prefix in raw:
                d = os.path.join(REPO, src_dir)
                if not os.path.isdir(d):
                    continue
                for f in sorted(os.listdir(d))[:200]:
                    try:
                        data = open(os.path.join(d, f), "rb").read()[:380]
                    except OSError:
                        continue
                    with open(os.path.join(corpus, "seed-%d" % n), "wb") as fh:
                        fh.write(bytes(prefix) + data)
                    n += 1
        if p.get("fuzz_dict"):
            args.append("-dict=" + os.path.join(ROOT, p["fuzz_dict"]))
        known = active_known_arg()
        env = {"VERIF_KNOWN": known[1] if known else ""}
        workers = NCPU
        args += ["-max_total_time=%d" % fuzz_s, "-jobs=%d" % workers, "-workers=%d" % workers, "-artifact_prefix=" + arts,
                 "-max_len=%d" % p.get("fuzz_max_len", 4096), "-seed=%d" % (seed if seed else 1), "-print_final_stats=1",
                 "-timeout=60", "-rss_limit_mb=3000"]
        cwd = os.getcwd()
        os.chdir(rundir)
        rc, out, err = run_proc(args, fuzz_s + 600, env)
        os.chdir(cwd)
        execs = 0
        for f in os.listdir(rundir):
            if f.startswith("fuzz-") and f.endswith(".log"):
                try:
                    for line in open(os.path.join(rundir, f), errors="replace"):
                        if line.startswith("stat::number_of_executed_units:"):
                            execs += int(line.split()[1])
                except OSError:
                    pass
        crashes = [f for f in os.listdir(arts) if f.startswith("crash-") or f.startswith("leak-")]
        info["configs"][c] = {"executions": execs, "corpus_units": len(os.listdir(corpus)), "crash_artifacts": len(crashes)}
        for cf in crashes[:3]:
            src = os.path.join(arts, cf)
            cs_file = os.path.join(rundir, cf + ".cs")
            run_proc([rb, "bytes", src, cs_file, "--config", c] + known, 300)
            if os.path.exists(cs_file):
                dst, reproduced, slog = shrink_and_report(prop, rb, c, cs_file, rundir, p.get("params", {}))
                if reproduced:
                    violations.append(dst)
                else:
                    infra_errors.append("libFuzzer artifact %s does not reproduce in the deterministic runner" % src)
    return info


def main():
    if len(sys.argv) < 2:
        print(__doc__)
        return 2
    cmd = sys.argv[1]
    if cmd == "list":
        for k, p in PROPS.items():
            print(k, p["title"])
        return 0
    if cmd == "setup":
        jobs = []
        for k, p in PROPS.items():
            for c in p["quick"].get("configs", ["default"]):
                jobs.append((k, c, False))
        t0 = time.time()
        try:
            build_all(jobs)
        except RuntimeError as e:
            log("HARNESS-ERROR: " + str(e))
            return 2
        log("setup: %d binaries ready in %.0fs" % (len(jobs), time.time() - t0))
        return 0
    if cmd == "run":
        prop = sys.argv[2]
        tier = os.environ.get("VERIF_TIER", "quick")
        if "--tier" in sys.argv:
            tier = sys.argv[sys.argv.index("--tier") + 1]
        seed = int(os.environ.get("VERIF_SEED", "1") or "1")
        if "--seed" in sys.argv:
            seed = int(sys.argv[sys.argv.index("--seed") + 1])
        if prop not in PROPS:
            log("unknown property " + prop)
            return 2
        return run_property(prop, tier, seed)
    if cmd == "replay":
        prop, path = sys.argv[2], sys.argv[3]
        cfg = "default"
        if "--config" in sys.argv:
            cfg = sys.argv[sys.argv.index("--config") + 1]
        else:
            for line in open(path, errors="replace"):
                if line.startswith("# config "):
                    cfg = line.split()[2]
                    break
        wname = None
        first = open(path, errors="replace").readline()
        if first.startswith("# regression witness "):
            wname = first.split()[3]
            if "(config " in first:
                cfg = first.split("(config ")[1].split(")")[0]
        out, err = compile_one(prop, cfg)
        if err:
            log(err)
            return 2
        if wname:
            rc, o, e = run_proc([out, "witness", wname] + active_known_arg(), 900)
        else:
            rc, o, e = run_proc([out, "replay", path, "--config", cfg] + active_known_arg(), 600)
        sys.stdout.write(o)
        sys.stdout.write(e[-4000:])
        if rc != 0:
            log("VIOLATION property=%s replay=%s" % (prop, path))
            return 1
        return 0
    print(__doc__)
    return 2


if __name__ == "__main__":
    sys.exit(main())
