// main() for a property binary. Modes:
//   run      --seed S --shard i --nshards n --cases N --out PREFIX [--known a,b] [--tier t]
//            [--config name] [--param k=v]... [--enum MAXDRAWS] [--sweep]
//   replay   FILE            run one recorded case in-process (exit 0 pass, 42 oracle failure)
//   shrink   FILE OUT        fork-isolated shrinking of a failing case
//   cur2cs   CURFILE OUT     convert a crash record (mmap dump) into a replay file
//   witness  NAME            run a hard-coded witness case (exit 0 pass, 42 fail, else crash)
//   bytes    FILE OUT        decode a libFuzzer input into a replay file
// The property TU defines `cs::PropDef PROP`.
#pragma once
#include <fcntl.h>
#include <signal.h>
#include <sys/mman.h>
#include <sys/stat.h>
#include <sys/wait.h>
#include <unistd.h>
#include <atomic>

#include <algorithm>
#include <fstream>
#include <functional>
#include <sstream>

#include "cs.hpp"

namespace cs {

struct EnumSkip {};

// Runaway guard: a library operation that keeps allocating (on the default allocator, which no
// ledger sees) must end as a recorded crash of the case, not exhaust the machine. ASan's
// hard_rss_limit_mb needs a background thread, which forked shrink children do not have.
#if defined(__has_feature)
#if __has_feature(address_sanitizer)
#define CS_HAVE_ASAN_HOOKS 1
#endif
#endif
#ifdef CS_HAVE_ASAN_HOOKS
extern "C" int __sanitizer_install_malloc_and_free_hooks(void (*)(const volatile void*, size_t), void (*)(const volatile void*));
extern "C" size_t __sanitizer_get_allocated_size(const volatile void*);
// live bytes in blocks below 1 MiB: one huge block (a declared length the library tries to honour)
// is legitimate, gigabytes of small blocks are not produced by any generator
inline std::atomic<size_t>& small_live_bytes() {
  static std::atomic<size_t> v{0};
  return v;
}
inline std::atomic<size_t>& runaway_baseline() {
  static std::atomic<size_t> v{0};
  return v;
}
inline void runaway_malloc_hook(const volatile void*, size_t size) {
  if (size >= (1u << 20)) return;
  size_t now = small_live_bytes().fetch_add(size, std::memory_order_relaxed) + size;
  size_t base = runaway_baseline().load(std::memory_order_relaxed);
  if (now > base && now - base > ((size_t)384 << 20)) {
    static const char msg[] = "\nRUNAWAY-ALLOCATION: one case holds more than 384 MiB in small heap blocks; aborting the case\n";
    if (write(2, msg, sizeof msg - 1)) {}
    abort();
  }
}
inline void runaway_free_hook(const volatile void* p) {
  size_t size = __sanitizer_get_allocated_size(p);
  if (size < (1u << 20)) small_live_bytes().fetch_sub(size, std::memory_order_relaxed);
}
inline void install_runaway_guard() { __sanitizer_install_malloc_and_free_hooks(runaway_malloc_hook, runaway_free_hook); }
inline void runaway_case_begin() { runaway_baseline().store(small_live_bytes().load(std::memory_order_relaxed), std::memory_order_relaxed); }
#else
inline void install_runaway_guard() {}
inline void runaway_case_begin() {}
#endif
inline void runaway_guard_off() {
#ifdef CS_HAVE_ASAN_HOOKS
  runaway_baseline().store((size_t)-1 >> 1, std::memory_order_relaxed);
#endif
}


struct PropDef {
  const char* id;
  void (*run_case)(Src&, Ctx&);
  void (*sweep)(Ctx&, uint64_t shard, uint64_t nshards);  // may be null
  void (*witness)(const std::string& name, Ctx&);         // may be null
  // re-execute a case given as raw bytes (sweep failures carry an "I <hex>" line); may be null
  void (*replay_input)(const std::string& bytes, Ctx&) = nullptr;
};

static const size_t RECORD_CAP = 1u << 18;  // draws

inline std::string json_escape(const std::string& s) {
  std::string o;
  for (unsigned char c : s) {
    switch (c) {
      case '"': o += "\\\""; break;
      case '\\': o += "\\\\"; break;
      case '\n': o += "\\n"; break;
      case '\r': o += "\\r"; break;
      case '\t': o += "\\t"; break;
      default:
        if (c < 0x20 || c >= 0x7f) {
          char b[8];
          snprintf(b, sizeof b, "\\u%04x", c);
          o += b;
        } else {
          o += (char)c;
        }
    }
  }
  return o;
}

inline void write_map(std::ostream& o, const std::map<std::string, uint64_t>& m) {
  o << "{";
  bool first = true;
  for (auto& kv : m) {
    if (!first) o << ",";
    first = false;
    o << "\"" << json_escape(kv.first) << "\":" << kv.second;
  }
  o << "}";
}

inline void write_counters(const Ctx& ctx, const std::string& prefix, const char* id,
                           uint64_t failures) {
  {
    std::ofstream o(prefix + ".json");
    o << "{\"property\":\"" << id << "\",\"config\":\"" << json_escape(ctx.config)
      << "\",\"evaluations\":" << ctx.evaluations << ",\"executions\":" << ctx.executions
      << ",\"trivial\":" << ctx.trivial << ",\"counted_nontrivial\":" << ctx.counted_nontrivial
      << ",\"hashed_nontrivial\":" << ctx.nontrivial_hashes.size()
      << ",\"exhaustive_done\":" << (ctx.exhaustive_done ? "true" : "false")
      << ",\"failures\":" << failures << ",\"labels\":";
    write_map(o, ctx.labels);
    o << ",\"unspecified\":";
    write_map(o, ctx.unspecified_zones);
    o << ",\"known_excluded\":";
    write_map(o, ctx.known_excluded);
    o << ",\"samples\":[";
    for (size_t i = 0; i < ctx.samples.size(); i++) {
      if (i) o << ",";
      o << "\"" << json_escape(ctx.samples[i]) << "\"";
    }
    o << "]}\n";
  }
  {
    std::vector<uint64_t> v(ctx.nontrivial_hashes.begin(), ctx.nontrivial_hashes.end());
    std::sort(v.begin(), v.end());
    FILE* f = fopen((prefix + ".hashes").c_str(), "wb");
    if (f) {
      if (!v.empty()) fwrite(v.data(), 8, v.size(), f);
      fclose(f);
    }
  }
}

inline std::string& failing_input() {
  static std::string s;
  return s;
}
inline void write_cs(const std::string& path, const char* id, const std::vector<Draw>& draws,
                     const std::string& kind, const std::string& message,
                     const std::string& rendering, const std::string& config) {
  std::ofstream o(path);
  if (!failing_input().empty() && draws.empty()) o << "I " << hex_bytes(failing_input(), 1u << 22) << "\n";
  o << "# property " << id << "\n";
  o << "# config " << config << "\n";
  o << "# kind " << kind << "\n";
  {
    std::istringstream is(message);
    std::string line;
    while (std::getline(is, line)) o << "# message " << line << "\n";
  }
  {
    std::istringstream is(rendering);
    std::string line;
    int n = 0;
    while (std::getline(is, line) && n++ < 400)
      o << "# case " << (line.size() > 2000 ? line.substr(0, 2000) + "…" : line) << "\n";
  }
  for (auto& d : draws) o << "D " << d.bound << " " << d.value << "\n";
}

inline bool read_cs(const std::string& path, std::vector<Draw>& draws, std::string* kind = nullptr) {
  std::ifstream in(path);
  if (!in) return false;
  std::string line;
  while (std::getline(in, line)) {
    if (line.rfind("# kind ", 0) == 0 && kind) *kind = line.substr(7);
    if (line.size() > 2 && line[0] == 'D' && line[1] == ' ') {
      Draw d{0, 0};
      if (sscanf(line.c_str() + 2, "%lu %lu", &d.bound, &d.value) >= 2) draws.push_back(d);
    }
  }
  return true;
}

inline Record* map_record(const std::string& path) {
  size_t bytes = sizeof(Record) + RECORD_CAP * sizeof(Draw);
  int fd = open(path.c_str(), O_RDWR | O_CREAT | O_TRUNC, 0644);
  if (fd < 0) return nullptr;
  if (ftruncate(fd, (off_t)bytes) != 0) {
    close(fd);
    return nullptr;
  }
  void* p = mmap(nullptr, bytes, PROT_READ | PROT_WRITE, MAP_SHARED, fd, 0);
  close(fd);
  if (p == MAP_FAILED) return nullptr;
  return static_cast<Record*>(p);
}

inline Record* anon_record() {
  size_t bytes = sizeof(Record) + RECORD_CAP * sizeof(Draw);
  void* p = mmap(nullptr, bytes, PROT_READ | PROT_WRITE, MAP_SHARED | MAP_ANONYMOUS, -1, 0);
  return p == MAP_FAILED ? nullptr : static_cast<Record*>(p);
}

// result of one isolated execution
struct Outcome {
  int status;  // 0 pass, 1 oracle failure, 2 crash, 3 timeout
  std::string kind;
  std::string message;
  std::string rendering;
  bool failed() const { return status != 0; }
};

// Run one replayed case in a forked child.
inline Outcome run_isolated(const PropDef& prop, Ctx& base, const std::vector<Draw>& draws,
                            Record* rec, unsigned timeout_s = 30) {
  int fds[2];
  if (pipe(fds) != 0) return Outcome{2, "crash", "pipe failed", ""};
  fflush(stdout);
  fflush(stderr);
  pid_t pid = fork();
  if (pid == 0) {
    close(fds[0]);
    // silence sanitizer chatter of candidates
    int devnull = open("/dev/null", O_WRONLY);
    if (devnull >= 0) {
      dup2(devnull, 2);
      dup2(devnull, 1);
    }
    alarm(timeout_s);
    Ctx ctx = base;
    Src src;
    src.attach(rec, RECORD_CAP);
    src.init_replay(draws);
    int code = 0;
    std::string out;
    try {
      runaway_case_begin();
      prop.run_case(src, ctx);
    } catch (Failure& f) {
      code = 42;
      out = f.kind + "\n" + f.message + "\n\x01" + ctx.current_rendering;
    } catch (EnumSkip&) {
    }
    if (code == 0) out = std::string("pass\n\n\x01") + ctx.current_rendering;
    size_t off = 0;
    while (off < out.size()) {
      ssize_t w = write(fds[1], out.data() + off, out.size() - off);
      if (w <= 0) break;
      off += (size_t)w;
    }
    close(fds[1]);
    _exit(code);
  }
  close(fds[1]);
  std::string out;
  char buf[4096];
  ssize_t r;
  while ((r = read(fds[0], buf, sizeof buf)) > 0) out.append(buf, (size_t)r);
  close(fds[0]);
  int st = 0;
  waitpid(pid, &st, 0);
  Outcome o;
  if (WIFEXITED(st) && WEXITSTATUS(st) == 0) {
    o.status = 0;
  } else if (WIFEXITED(st) && WEXITSTATUS(st) == 42) {
    o.status = 1;
  } else if (WIFSIGNALED(st) && WTERMSIG(st) == SIGALRM) {
    o.status = 3;
    o.kind = "timeout";
  } else {
    o.status = 2;
    o.kind = "crash";
    o.message = WIFSIGNALED(st) ? ("killed by signal " + std::to_string(WTERMSIG(st)))
                                : ("exit status " + std::to_string(WEXITSTATUS(st)) +
                                   " (sanitizer report or assertion)");
  }
  size_t sep = out.find('\x01');
  if (sep != std::string::npos) {
    o.rendering = out.substr(sep + 1);
    out.resize(sep);
  }
  if (o.status == 1) {
    size_t nl = out.find('\n');
    o.kind = out.substr(0, nl);
    if (nl != std::string::npos) o.message = out.substr(nl + 1);
  }
  return o;
}

inline std::string kind_class(const Outcome& o) {
  if (o.status == 2) return "crash";
  if (o.status == 3) return "timeout";
  return o.kind;
}

inline int do_shrink(const PropDef& prop, Ctx& ctx, const std::string& in, const std::string& outp) {
  std::vector<Draw> best;
  if (!read_cs(in, best)) {
    fprintf(stderr, "cannot read %s\n", in.c_str());
    return 2;
  }
  Record* rec = anon_record();
  Outcome o0 = run_isolated(prop, ctx, best, rec);
  if (!o0.failed()) {
    printf("SHRINK: case does not fail on replay\n");
    return 3;
  }
  // normalise to the draws actually consumed
  auto consumed = [&]() {
    std::vector<Draw> d(rec->draws, rec->draws + rec->n);
    return d;
  };
  if (o0.status != 2 && o0.status != 3) best = consumed();
  std::string want = kind_class(o0);
  Outcome best_o = o0;
  int attempts = 0;
  const int max_attempts = (int)ctx.param_u("shrink_attempts", 1500);
  auto try_candidate = [&](const std::vector<Draw>& cand) -> bool {
    if (attempts >= max_attempts) return false;
    attempts++;
    Outcome o = run_isolated(prop, ctx, cand, rec);
    if (o.failed() && kind_class(o) == want) {
      best = cand;
      if (o.status == 1) {
        std::vector<Draw> c = consumed();
        if (c.size() <= best.size()) best = c;
      }
      best_o = o;
      return true;
    }
    return false;
  };
  bool improved = true;
  while (improved && attempts < max_attempts) {
    improved = false;
    // pass 1: delete spans
    for (size_t span = best.size() / 2; span >= 1; span /= 2) {
      for (size_t i = 0; i + span <= best.size();) {
        std::vector<Draw> cand(best.begin(), best.begin() + (long)i);
        cand.insert(cand.end(), best.begin() + (long)(i + span), best.end());
        if (try_candidate(cand))
          improved = true;
        else
          i += span;
        if (attempts >= max_attempts) break;
      }
      if (span == 1) break;
    }
    // pass 2: zero, then minimise each draw
    for (size_t i = 0; i < best.size() && attempts < max_attempts; i++) {
      if (best[i].value == 0) continue;
      std::vector<Draw> cand = best;
      cand[i].value = 0;
      if (try_candidate(cand)) {
        improved = true;
        continue;
      }
      uint64_t lo = 0, hi = best[i].value;  // lo passes (does not fail), hi fails
      while (hi - lo > 1 && attempts < max_attempts) {
        uint64_t mid = lo + (hi - lo) / 2;
        cand = best;
        if (i >= cand.size()) break;
        cand[i].value = mid;
        if (try_candidate(cand)) {
          hi = mid;
          improved = true;
        } else {
          lo = mid;
        }
      }
    }
  }
  write_cs(outp, prop.id, best, want == "crash" ? "crash" : best_o.kind, best_o.message,
           best_o.rendering, ctx.config);
  printf("SHRINK: %d attempts, %zu draws, kind=%s\n", attempts, best.size(), want.c_str());
  return 0;
}

inline std::vector<std::string> split(const std::string& s, char sep) {
  std::vector<std::string> out;
  std::string cur;
  for (char c : s) {
    if (c == sep) {
      if (!cur.empty()) out.push_back(cur);
      cur.clear();
    } else {
      cur += c;
    }
  }
  if (!cur.empty()) out.push_back(cur);
  return out;
}

inline int runner_main(const PropDef& prop, int argc, char** argv) {
  install_runaway_guard();
  if (argc < 2) {
    fprintf(stderr, "usage: %s run|replay|shrink|cur2cs|witness|bytes ...\n", argv[0]);
    return 2;
  }
  std::string mode = argv[1];
  Ctx ctx;
  uint64_t seed = 0, shard = 0, nshards = 1, cases = 1000, enum_draws = 0;
  bool sweep = false;
  std::string out = "out";
  std::vector<std::string> pos;
  for (int i = 2; i < argc; i++) {
    std::string a = argv[i];
    auto next = [&]() -> std::string { return i + 1 < argc ? argv[++i] : ""; };
    if (a == "--seed") seed = strtoull(next().c_str(), nullptr, 0);
    else if (a == "--shard") shard = strtoull(next().c_str(), nullptr, 0);
    else if (a == "--nshards") nshards = strtoull(next().c_str(), nullptr, 0);
    else if (a == "--cases") cases = strtoull(next().c_str(), nullptr, 0);
    else if (a == "--out") out = next();
    else if (a == "--tier") ctx.tier = next();
    else if (a == "--config") ctx.config = next();
    else if (a == "--known") ctx.active_known = split(next(), ',');
    else if (a == "--enum") enum_draws = strtoull(next().c_str(), nullptr, 0);
    else if (a == "--sweep") sweep = true;
    else if (a == "--param") {
      std::string kv = next();
      size_t eq = kv.find('=');
      if (eq != std::string::npos) ctx.params[kv.substr(0, eq)] = kv.substr(eq + 1);
    } else pos.push_back(a);
  }

  if (mode == "replay") {
    std::vector<Draw> draws;
    if (pos.empty() || !read_cs(pos[0], draws)) {
      fprintf(stderr, "cannot read replay file\n");
      return 2;
    }
    if (draws.empty() && prop.replay_input) {
      std::ifstream in(pos[0]);
      std::string line;
      while (std::getline(in, line)) {
        if (line.rfind("I ", 0) != 0) continue;
        std::string bytes;
        for (size_t i = 2; i + 1 < line.size(); i += 2) bytes += (char)strtol(line.substr(i, 2).c_str(), nullptr, 16);
        try {
          prop.replay_input(bytes, ctx);
        } catch (Failure& f) {
          printf("REPLAY %s: FAIL kind=%s\n%s\n--- case ---\n%s\n", prop.id, f.kind.c_str(), f.message.c_str(),
                 ctx.current_rendering.c_str());
          return 42;
        }
        printf("REPLAY %s: pass (input case)\n", prop.id);
        return 0;
      }
    }
    Src src;
    Record* rec = anon_record();
    src.attach(rec, RECORD_CAP);
    src.init_replay(draws);
    try {
      runaway_case_begin();
      prop.run_case(src, ctx);
    } catch (Failure& f) {
      printf("REPLAY %s: FAIL kind=%s\n%s\n--- case ---\n%s\n", prop.id, f.kind.c_str(),
             f.message.c_str(), ctx.current_rendering.c_str());
      return 42;
    } catch (EnumSkip&) {
    }
    printf("REPLAY %s: pass\n--- case ---\n%s\n", prop.id, ctx.current_rendering.c_str());
    return 0;
  }
  if (mode == "shrink") {
    if (pos.size() < 2) return 2;
    return do_shrink(prop, ctx, pos[0], pos[1]);
  }
  if (mode == "cur2cs") {
    if (pos.size() < 2) return 2;
    FILE* f = fopen(pos[0].c_str(), "rb");
    if (!f) return 2;
    Record hdr;
    if (fread(&hdr, 1, sizeof hdr, f) < sizeof(Record) - sizeof(Draw)) {
      fclose(f);
      return 2;
    }
    fseek(f, (long)offsetof(Record, draws), SEEK_SET);
    std::vector<Draw> draws(hdr.n > RECORD_CAP ? 0 : hdr.n);
    if (!draws.empty()) {
      size_t got = fread(draws.data(), sizeof(Draw), draws.size(), f);
      draws.resize(got);
    }
    fclose(f);
    write_cs(pos[1], prop.id, draws, "crash",
             "process died while running case " + std::to_string(hdr.case_index) + " (stage " +
                 std::to_string(hdr.stage) + ")",
             "", ctx.config);
    return 0;
  }
  if (mode == "bytes") {
    if (pos.size() < 2) return 2;
    std::ifstream in(pos[0], std::ios::binary);
    std::string data((std::istreambuf_iterator<char>(in)), std::istreambuf_iterator<char>());
    Record* rec = anon_record();
    // run in a child: the input may crash
    fflush(stdout);
    pid_t pid = fork();
    if (pid == 0) {
      Src src;
      src.attach(rec, RECORD_CAP);
      src.init_bytes(reinterpret_cast<const uint8_t*>(data.data()), data.size());
      try {
        runaway_case_begin();
      prop.run_case(src, ctx);
      } catch (...) {
      }
      _exit(0);
    }
    int st;
    waitpid(pid, &st, 0);
    std::vector<Draw> draws(rec->draws, rec->draws + rec->n);
    write_cs(pos[1], prop.id, draws, "fuzz", "decoded from libFuzzer input " + pos[0], "",
             ctx.config);
    return 0;
  }
  if (mode == "witness") {
    if (pos.empty() || !prop.witness) return 2;
    try {
      prop.witness(pos[0], ctx);
    } catch (Failure& f) {
      printf("WITNESS %s %s: FAIL kind=%s %s\n", prop.id, pos[0].c_str(), f.kind.c_str(),
             f.message.c_str());
      return 42;
    }
    printf("WITNESS %s %s: pass\n", prop.id, pos[0].c_str());
    return 0;
  }
  if (mode != "run") {
    fprintf(stderr, "unknown mode %s\n", mode.c_str());
    return 2;
  }

  // ---- run ----
  Record* rec = map_record(out + ".cur");
  if (!rec) rec = anon_record();
  Src src;
  src.attach(rec, RECORD_CAP);
  uint64_t failures = 0;
  uint64_t pid_hash = hash_str(prop.id);
  auto on_failure = [&](const Failure& f) {
    failures++;
    write_cs(out + ".fail.cs", prop.id, src.draws(), f.kind, f.message, ctx.current_rendering,
             ctx.config);
    fprintf(stderr, "FAIL %s [%s] %s\n", prop.id, f.kind.c_str(), f.message.c_str());
  };
  if (enum_draws) {
    src.init_enum((size_t)enum_draws);
    uint64_t leaves = 0, overruns = 0;
    bool more = true;
    uint64_t gate = ctx.param_u("enum_gate", 2);
    while (more && !failures) {
      src.enum_begin_case();
      src.set_case(leaves, 0);
      // ownership: decided after `gate` draws by the property through ctx.params? keep simple:
      // every shard walks the tree but only executes leaves whose index matches. Generators
      // used in enum mode are cheap; properties that need subtree skipping call enum_owner().
      ctx.params["__enum_shard"] = std::to_string(shard);
      ctx.params["__enum_nshards"] = std::to_string(nshards);
      (void)gate;
      try {
        ctx.current_rendering.clear();
        runaway_case_begin();
      prop.run_case(src, ctx);
      } catch (Failure& f) {
        on_failure(f);
      } catch (EnumSkip&) {
      }
      if (src.enum_overrun()) overruns++;
      leaves++;
      more = src.enum_next();
    }
    ctx.labels["enum_leaves_walked"] = leaves;
    ctx.labels["enum_overruns"] = overruns;
    if (!more && !failures && overruns == 0) ctx.exhaustive_done = true;
  } else {
    for (uint64_t idx = shard; idx < cases && !failures; idx += nshards) {
      uint64_t s = mix(mix(seed, pid_hash), idx);
      src.init_random(s);
      src.set_case(idx, s);
      try {
        ctx.current_rendering.clear();
        runaway_case_begin();
      prop.run_case(src, ctx);
      } catch (Failure& f) {
        on_failure(f);
      } catch (EnumSkip&) {
      }
      if ((idx / nshards) % 4096 == 4095) write_counters(ctx, out, prop.id, failures);
    }
  }
  if (sweep && prop.sweep && !failures) {
    src.init_random(mix(seed, 777));  // sweeps may still draw (recorded) choices
    try {
      runaway_guard_off();
      prop.sweep(ctx, shard, nshards);
    } catch (Failure& f) {
      failures++;
      // a sweep failure carries its own reproduction in the message; the replay file is a
      // descriptor that the witness mode understands ("sweep:<descriptor>")
      write_cs(out + ".fail.cs", prop.id, std::vector<Draw>(), f.kind, f.message,
               ctx.current_rendering, ctx.config);
      fprintf(stderr, "FAIL %s [%s] %s\n", prop.id, f.kind.c_str(), f.message.c_str());
    }
  }
  write_counters(ctx, out, prop.id, failures);
  return failures ? 1 : 0;
}

// helper for enum-mode sharding inside a property: true when this leaf belongs to the shard
inline bool enum_owner(const Ctx& ctx, uint64_t key) {
  uint64_t n = ctx.param_u("__enum_nshards", 1);
  uint64_t s = ctx.param_u("__enum_shard", 0);
  return n <= 1 || (finish(key) % n) == s;
}

}  // namespace cs

#ifdef VERIF_FUZZ
#define CS_MAIN(PROP)                                                                   \
  extern "C" int LLVMFuzzerTestOneInput(const uint8_t* data, size_t size) {             \
    static cs::Ctx ctx;                                                                 \
    static cs::Record* rec = cs::anon_record();                                         \
    static bool init = false;                                                           \
    if (!init) {                                                                        \
      init = true;                                                                      \
      cs::install_runaway_guard();                                                      \
      const char* k = getenv("VERIF_KNOWN");                                            \
      if (k) ctx.active_known = cs::split(k, ',');                                      \
      ctx.tier = "thorough";                                                            \
      ctx.max_samples = 0;                                                              \
    }                                                                                   \
    cs::Src src;                                                                        \
    src.attach(rec, cs::RECORD_CAP);                                                    \
    src.init_bytes(data, size);                                                         \
    try {                                                                               \
      ctx.current_rendering.clear();                                                    \
      ctx.nontrivial_hashes.clear();                                                    \
      cs::runaway_case_begin();                                                         \
      PROP.run_case(src, ctx);                                                          \
    } catch (cs::Failure & f) {                                                         \
      fprintf(stderr, "ORACLE-FAIL %s [%s] %s\n", PROP.id, f.kind.c_str(),              \
              f.message.c_str());                                                       \
      __builtin_trap();                                                                 \
    } catch (cs::EnumSkip&) {                                                           \
    }                                                                                   \
    return 0;                                                                           \
  }
#else
#define CS_MAIN(PROP) \
  int main(int argc, char** argv) { return cs::runner_main(PROP, argc, argv); }
#endif
