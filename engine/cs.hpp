// Choice-sequence engine: every generator draws from cs::Src through below(n).
// One source type serves random generation, replay, bounded-exhaustive
// enumeration and libFuzzer byte decoding, so a property body is written once.
#pragma once
#include <cstdint>
#include <cstdio>
#include <cstdlib>
#include <cstring>
#include <map>
#include <string>
#include <unordered_set>
#include <vector>

namespace cs {

struct Draw {
  uint64_t bound;
  uint64_t value;
};

inline uint64_t splitmix(uint64_t& s) {
  uint64_t z = (s += 0x9E3779B97F4A7C15ull);
  z = (z ^ (z >> 30)) * 0xBF58476D1CE4E5B9ull;
  z = (z ^ (z >> 27)) * 0x94D049BB133111EBull;
  return z ^ (z >> 31);
}

inline uint64_t mix(uint64_t a, uint64_t b) {
  uint64_t s = a * 0x9E3779B97F4A7C15ull + b + 0x632BE59BD9B4E019ull;
  return splitmix(s);
}

// FNV-1a 64 with a final avalanche; used for "distinct" counting.
inline uint64_t hash_bytes(const void* p, size_t n, uint64_t h = 0xcbf29ce484222325ull) {
  const unsigned char* s = static_cast<const unsigned char*>(p);
  for (size_t i = 0; i < n; i++) {
    h ^= s[i];
    h *= 0x100000001b3ull;
  }
  return h;
}
inline uint64_t hash_str(const std::string& s, uint64_t h = 0xcbf29ce484222325ull) {
  return hash_bytes(s.data(), s.size(), h);
}
inline uint64_t hash_u64(uint64_t v, uint64_t h = 0xcbf29ce484222325ull) {
  return hash_bytes(&v, 8, h);
}
inline uint64_t finish(uint64_t h) {
  uint64_t s = h;
  return splitmix(s);
}

// Record buffer: lives in a MAP_SHARED file mapping when the runner set one up,
// so that whatever kills the process, the case that was running is on disk.
struct Record {
  uint64_t magic;
  uint64_t case_index;
  uint64_t seed;
  uint64_t n;         // number of draws recorded
  uint64_t overflow;  // draws not recorded because the buffer was full
  uint64_t stage;     // free for the property: last stage reached
  Draw draws[1];
};

class Src {
 public:
  enum Mode { RANDOM, REPLAY, BYTES, ENUM };

  Src() {}

  void init_random(uint64_t seed) {
    mode_ = RANDOM;
    state_ = seed;
    reset_record();
  }
  void init_replay(const std::vector<Draw>& d) {
    mode_ = REPLAY;
    replay_ = d;
    pos_ = 0;
    reset_record();
  }
  void init_bytes(const uint8_t* p, size_t n) {
    mode_ = BYTES;
    bytes_ = p;
    nbytes_ = n;
    pos_ = 0;
    reset_record();
  }
  // Enumeration: prefix_ holds the path of the current leaf; the runner calls
  // enum_next() between cases.
  void init_enum(size_t max_draws) {
    mode_ = ENUM;
    enum_max_ = max_draws;
    prefix_.clear();
    pos_ = 0;
    reset_record();
  }
  void enum_begin_case() {
    pos_ = 0;
    enum_overrun_ = false;
    reset_record();
  }
  // advance to the next leaf; false when the whole tree was visited
  bool enum_next() {
    // drop unused tail (draws the case did not consume are irrelevant)
    if (prefix_.size() > pos_) prefix_.resize(pos_);
    while (!prefix_.empty()) {
      Draw& d = prefix_.back();
      if (d.value + 1 < d.bound) {
        d.value++;
        return true;
      }
      prefix_.pop_back();
    }
    return false;
  }
  bool enum_overrun() const { return enum_overrun_; }

  void attach(Record* rec, size_t cap) {
    rec_ = rec;
    cap_ = cap;
  }

  Mode mode() const { return mode_; }
  bool enumerating() const { return mode_ == ENUM; }

  // uniform integer in [0,n); n >= 1. Value 0 is always "the simplest".
  uint64_t below(uint64_t n) {
    if (n <= 1) return 0;
    uint64_t v = 0;
    switch (mode_) {
      case RANDOM:
        v = splitmix(state_) % n;
        break;
      case REPLAY:
        if (pos_ < replay_.size()) v = replay_[pos_].value % n;
        pos_++;
        break;
      case BYTES: {
        uint64_t m = n - 1;
        uint64_t acc = 0;
        while (m) {
          acc = (acc << 8) | (pos_ < nbytes_ ? bytes_[pos_] : 0);
          pos_++;
          m >>= 8;
        }
        v = acc % n;
        break;
      }
      case ENUM:
        if (pos_ < prefix_.size()) {
          v = prefix_[pos_].value;
          if (prefix_[pos_].bound != n) {  // generator not deterministic?
            prefix_[pos_].bound = n;
            if (v >= n) v = prefix_[pos_].value = 0;
          }
        } else if (pos_ < enum_max_) {
          prefix_.push_back(Draw{n, 0});
          v = 0;
        } else {
          enum_overrun_ = true;
          v = 0;
        }
        pos_++;
        break;
    }
    push(n, v);
    return v;
  }

  bool coin() { return below(2) != 0; }
  // true with probability num/den
  bool chance(uint64_t num, uint64_t den) { return below(den) >= den - num; }
  // inclusive range, lo is the simplest
  uint64_t range(uint64_t lo, uint64_t hi) { return lo + below(hi - lo + 1); }
  int64_t irange(int64_t lo, int64_t hi) {
    return (int64_t)((uint64_t)lo + below((uint64_t)hi - (uint64_t)lo + 1));
  }
  // weighted pick; index 0 is the simplest
  template <size_t N>
  size_t pick(const unsigned (&w)[N]) {
    uint64_t total = 0;
    for (size_t i = 0; i < N; i++) total += w[i];
    uint64_t r = below(total);
    // map 0 -> index 0 (first non-zero weight)
    for (size_t i = 0; i < N; i++) {
      if (r < w[i]) return i;
      r -= w[i];
    }
    return N - 1;
  }
  uint64_t bits64() {
    uint64_t hi = below(1ull << 32), lo = below(1ull << 32);
    return (hi << 32) | lo;
  }
  // geometric-ish small size: mostly small, sometimes up to max
  size_t small_size(size_t max) {
    static const unsigned w[] = {6, 3, 1};
    switch (pick(w)) {
      case 0: return (size_t)below(max < 4 ? max + 1 : 4);
      case 1: return (size_t)below(max < 16 ? max + 1 : 16);
      default: return (size_t)below(max + 1);
    }
  }

  // raw byte string: in BYTES mode all remaining fuzzer bytes (up to maxlen); every byte is
  // recorded as a draw so that the case replays and shrinks like any other
  std::string take_bytes(size_t maxlen) {
    size_t len;
    if (mode_ == BYTES) {
      size_t remaining = pos_ < nbytes_ ? nbytes_ - pos_ : 0;
      len = remaining < maxlen ? remaining : maxlen;
      push(maxlen + 1, len);
    } else {
      len = (size_t)below(maxlen + 1);
    }
    std::string out;
    for (size_t i = 0; i < len; i++) out += (char)below(256);
    return out;
  }

  const Record* record() const { return rec_; }
  std::vector<Draw> draws() const {
    std::vector<Draw> d;
    if (rec_) d.assign(rec_->draws, rec_->draws + rec_->n);
    return d;
  }
  void set_stage(uint64_t s) {
    if (rec_) rec_->stage = s;
  }
  void set_case(uint64_t idx, uint64_t seed) {
    if (rec_) {
      rec_->case_index = idx;
      rec_->seed = seed;
    }
  }
  size_t consumed() const { return pos_; }

 private:
  void reset_record() {
    if (rec_) {
      rec_->n = 0;
      rec_->overflow = 0;
      rec_->stage = 0;
      rec_->magic = 0x43535245434f5244ull;
    }
  }
  void push(uint64_t n, uint64_t v) {
    if (!rec_) return;
    if (rec_->n < cap_) {
      rec_->draws[rec_->n].bound = n;
      rec_->draws[rec_->n].value = v;
      rec_->n++;
    } else {
      rec_->overflow++;
    }
  }

  Mode mode_ = RANDOM;
  uint64_t state_ = 0;
  std::vector<Draw> replay_;
  std::vector<Draw> prefix_;
  const uint8_t* bytes_ = nullptr;
  size_t nbytes_ = 0;
  size_t pos_ = 0;
  size_t enum_max_ = 0;
  bool enum_overrun_ = false;
  Record* rec_ = nullptr;
  size_t cap_ = 0;
};

struct Failure {
  std::string kind;
  std::string message;
};

// Per-process counters and reporting. One Ctx lives for the whole run.
class Ctx {
 public:
  uint64_t evaluations = 0;   // cases executed
  uint64_t executions = 0;    // library executions (a case may run many)
  uint64_t trivial = 0;
  uint64_t counted_nontrivial = 0;  // distinct by construction (enumerations)
  std::unordered_set<uint64_t> nontrivial_hashes;
  std::map<std::string, uint64_t> labels;
  std::map<std::string, uint64_t> unspecified_zones;
  std::map<std::string, uint64_t> known_excluded;
  std::vector<std::string> samples;
  std::map<std::string, std::string> params;
  std::vector<std::string> active_known;  // predicates switched on
  std::string tier = "quick";
  std::string config = "default";
  bool exhaustive_done = false;
  size_t max_samples = 6;
  std::string current_rendering;  // human rendering of the case in progress

  [[noreturn]] void fail(const std::string& kind, const std::string& msg) {
    throw Failure{kind, msg};
  }
  void label(const std::string& l, uint64_t n = 1) { labels[l] += n; }
  void nontrivial(uint64_t h) { nontrivial_hashes.insert(finish(h)); }
  void nontrivial_str(const std::string& s) { nontrivial(hash_str(s)); }
  void unspecified(const std::string& zone) { unspecified_zones[zone]++; }
  void known(const std::string& id) { known_excluded[id]++; }
  bool is_known(const char* predicate) const {
    for (auto& k : active_known)
      if (k == predicate) return true;
    return false;
  }
  void sample(const std::string& s) {
    if (samples.size() < max_samples) {
      samples.push_back(s.size() > 600 ? s.substr(0, 600) + "…" : s);
    }
  }
  bool want_sample() const { return samples.size() < max_samples; }
  std::string param(const std::string& k, const std::string& dflt = "") const {
    auto it = params.find(k);
    return it == params.end() ? dflt : it->second;
  }
  uint64_t param_u(const std::string& k, uint64_t dflt) const {
    auto it = params.find(k);
    return it == params.end() ? dflt : strtoull(it->second.c_str(), nullptr, 0);
  }
  bool thorough() const { return tier == "thorough"; }
};

#define CS_STR2(x) #x
#define CS_STR(x) CS_STR2(x)
#define CHECK(ctx, cond, kind, msg)                                        \
  do {                                                                     \
    if (!(cond))                                                           \
      (ctx).fail(kind, std::string(msg) + " [" #cond " @" __FILE__ ":" CS_STR(__LINE__) "]"); \
  } while (0)

// helpers for human renderings
inline std::string quote_bytes(const std::string& s, size_t max = 400) {
  std::string o = "\"";
  size_t n = 0;
  for (unsigned char c : s) {
    if (n++ >= max) {
      o += "…(" + std::to_string(s.size()) + " bytes)";
      break;
    }
    if (c == '"' || c == '\\') {
      o += '\\';
      o += (char)c;
    } else if (c >= 0x20 && c < 0x7f) {
      o += (char)c;
    } else {
      char b[8];
      snprintf(b, sizeof b, "\\x%02x", c);
      o += b;
    }
  }
  return o + "\"";
}
inline std::string hex_bytes(const std::string& s, size_t max = 200) {
  std::string o;
  size_t n = 0;
  for (unsigned char c : s) {
    if (n++ >= max) {
      o += "…(" + std::to_string(s.size()) + " bytes)";
      break;
    }
    char b[4];
    snprintf(b, sizeof b, "%02x", c);
    o += b;
  }
  return o;
}

}  // namespace cs
