// Reference value: a plain ordered tree. Independent of ArduinoJson.
#pragma once
#include <cmath>
#include <cstdint>
#include <cstring>
#include <string>
#include <utility>
#include <vector>

#include "../engine/cs.hpp"

namespace ref {

struct Val {
  enum Kind { Null, Bool, Int, Flt, Str, Raw, Arr, Obj };
  Kind k = Null;
  bool b = false;
  bool neg = false;    // Int: sign (neg => value = -mag, mag in [1, 2^63])
  uint64_t mag = 0;    // Int: magnitude
  double d = 0;        // Flt
  std::string s;       // Str / Raw bytes
  std::vector<Val> a;  // Arr
  std::vector<std::pair<std::string, Val>> o;  // Obj (ordered, duplicates possible in inputs)
  uint64_t id = 0;     // model node identity (histories)

  static Val null() { return Val(); }
  static Val boolean(bool v) {
    Val x;
    x.k = Bool;
    x.b = v;
    return x;
  }
  static Val uint(uint64_t v) {
    Val x;
    x.k = Int;
    x.mag = v;
    return x;
  }
  static Val sint(int64_t v) {
    Val x;
    x.k = Int;
    if (v < 0) {
      x.neg = true;
      x.mag = (uint64_t)0 - (uint64_t)v;
    } else {
      x.mag = (uint64_t)v;
    }
    return x;
  }
  static Val negmag(uint64_t mag) {  // -(mag)
    Val x;
    x.k = Int;
    x.neg = mag != 0;
    x.mag = mag;
    return x;
  }
  static Val flt(double v) {
    Val x;
    x.k = Flt;
    x.d = v;
    return x;
  }
  static Val str(const std::string& v) {
    Val x;
    x.k = Str;
    x.s = v;
    return x;
  }
  static Val raw(const std::string& v) {
    Val x;
    x.k = Raw;
    x.s = v;
    return x;
  }
  static Val arr() {
    Val x;
    x.k = Arr;
    return x;
  }
  static Val obj() {
    Val x;
    x.k = Obj;
    return x;
  }

  bool is_container() const { return k == Arr || k == Obj; }
  bool fits_i64() const { return k == Int && (neg ? mag <= (1ull << 63) : mag < (1ull << 63)); }
  bool fits_u64() const { return k == Int && !neg; }
  int64_t as_i64() const { return neg ? (int64_t)((uint64_t)0 - mag) : (int64_t)mag; }
  long double as_ld() const {
    if (k == Int) return neg ? -(long double)mag : (long double)mag;
    if (k == Flt) return (long double)d;
    return 0;
  }
  bool is_f32() const { return k == Flt && (std::isnan(d) || (double)(float)d == d); }

  Val* find(const std::string& key) {  // first member with that key
    for (auto& kv : o)
      if (kv.first == key) return &kv.second;
    return nullptr;
  }
  const Val* find(const std::string& key) const { return const_cast<Val*>(this)->find(key); }

  size_t nesting() const {
    if (!is_container()) return 0;
    size_t m = 0;
    if (k == Arr)
      for (auto& e : a) m = std::max(m, e.nesting());
    else
      for (auto& kv : o) m = std::max(m, kv.second.nesting());
    return m + 1;
  }
  size_t nodes() const {
    size_t n = 1;
    if (k == Arr)
      for (auto& e : a) n += e.nodes();
    if (k == Obj)
      for (auto& kv : o) n += kv.second.nodes();
    return n;
  }
  template <typename F>
  void walk(F&& f) const {
    f(*this);
    if (k == Arr)
      for (auto& e : a) e.walk(f);
    if (k == Obj)
      for (auto& kv : o) kv.second.walk(f);
  }
};

inline bool same_double_exact(double x, double y) {
  if (std::isnan(x) || std::isnan(y)) return std::isnan(x) && std::isnan(y);
  return x == y && std::signbit(x) == std::signbit(y);
}

// number comparison callback: return true when the observed number `got` is acceptable
// for the expected number `want`.
typedef bool (*NumRule)(const Val& want, const Val& got);

// what a floating-point value becomes when the configuration stores it (JsonFloat = float when
// ARDUINOJSON_USE_DOUBLE=0): "exact" then means exact after that narrowing
inline double stored_float_value(double d) {
#if defined(ARDUINOJSON_USE_DOUBLE) && !ARDUINOJSON_USE_DOUBLE
  if (std::isfinite(d)) {
    float f = (float)d;
    return (double)f;
  }
#endif
  return d;
}
inline bool num_exact(const Val& w, const Val& g) {
  if (w.k != g.k) return false;
  if (w.k == Val::Int) return w.neg == g.neg && w.mag == g.mag;
  return same_double_exact(stored_float_value(w.d), g.d);
}
// numbers by numeric value (C07/C18 wording): 1 == 1.0, -0.0 == 0
inline bool num_by_value(const Val& w, const Val& g) {
  if (w.k == Val::Int && g.k == Val::Int) return w.neg == g.neg && w.mag == g.mag;
  long double x = w.as_ld(), y = g.as_ld();
  if (std::isnan((double)x) || std::isnan((double)y)) return std::isnan((double)x) && std::isnan((double)y);
  return x == y;
}

// structural equality; on mismatch *why receives a path description
inline bool same(const Val& w, const Val& g, NumRule nr, std::string* why = nullptr,
                 const std::string& path = "$") {
  auto no = [&](const std::string& m) {
    if (why && why->empty()) *why = path + ": " + m;
    return false;
  };
  bool wn = w.k == Val::Int || w.k == Val::Flt, gn = g.k == Val::Int || g.k == Val::Flt;
  if (wn || gn) {
    if (!(wn && gn)) return no("kind differs (number vs non-number)");
    if (!nr(w, g)) {
      char b[200];
      snprintf(b, sizeof b, "number differs: want %s%llu/%.17g kind=%d, got %s%llu/%.17g kind=%d",
               w.neg ? "-" : "", (unsigned long long)w.mag, w.d, (int)w.k, g.neg ? "-" : "",
               (unsigned long long)g.mag, g.d, (int)g.k);
      return no(b);
    }
    return true;
  }
  if (w.k != g.k) return no("kind differs: want " + std::to_string(w.k) + " got " + std::to_string(g.k));
  switch (w.k) {
    case Val::Null: return true;
    case Val::Bool: return w.b == g.b ? true : no("bool differs");
    case Val::Str:
    case Val::Raw:
      if (w.s != g.s)
        return no("bytes differ: want " + cs::quote_bytes(w.s, 80) + " got " + cs::quote_bytes(g.s, 80));
      return true;
    case Val::Arr:
      if (w.a.size() != g.a.size())
        return no("array size differs: want " + std::to_string(w.a.size()) + " got " +
                  std::to_string(g.a.size()));
      for (size_t i = 0; i < w.a.size(); i++)
        if (!same(w.a[i], g.a[i], nr, why, path + "[" + std::to_string(i) + "]")) return false;
      return true;
    case Val::Obj:
      if (w.o.size() != g.o.size())
        return no("object size differs: want " + std::to_string(w.o.size()) + " got " +
                  std::to_string(g.o.size()));
      for (size_t i = 0; i < w.o.size(); i++) {
        if (w.o[i].first != g.o[i].first)
          return no("key #" + std::to_string(i) + " differs: want " + cs::quote_bytes(w.o[i].first, 80) +
                    " got " + cs::quote_bytes(g.o[i].first, 80));
        if (!same(w.o[i].second, g.o[i].second, nr, why, path + "." + cs::quote_bytes(w.o[i].first, 40)))
          return false;
      }
      return true;
    default: return false;
  }
}

// compact debugging rendering (not JSON: shows kinds)
inline void render(const Val& v, std::string& o, size_t max = 1500) {
  if (o.size() > max) return;
  char b[64];
  switch (v.k) {
    case Val::Null: o += "null"; break;
    case Val::Bool: o += v.b ? "true" : "false"; break;
    case Val::Int:
      snprintf(b, sizeof b, "%s%llu", v.neg ? "-" : "", (unsigned long long)v.mag);
      o += b;
      break;
    case Val::Flt:
      snprintf(b, sizeof b, "%.17g%s", v.d, v.is_f32() ? "f" : "d");
      o += b;
      break;
    case Val::Str: o += cs::quote_bytes(v.s, 60); break;
    case Val::Raw: o += "raw(" + cs::quote_bytes(v.s, 60) + ")"; break;
    case Val::Arr:
      o += "[";
      for (size_t i = 0; i < v.a.size(); i++) {
        if (i) o += ",";
        render(v.a[i], o, max);
      }
      o += "]";
      break;
    case Val::Obj:
      o += "{";
      for (size_t i = 0; i < v.o.size(); i++) {
        if (i) o += ",";
        o += cs::quote_bytes(v.o[i].first, 40) + ":";
        render(v.o[i].second, o, max);
      }
      o += "}";
      break;
  }
}
inline std::string render(const Val& v, size_t max = 1500) {
  std::string o;
  render(v, o, max);
  if (o.size() > max) o = o.substr(0, max) + "…";
  return o;
}

// The document model merges duplicate keys: last value wins, position of the first occurrence
// is kept by the JSON deserializer (it assigns into the existing member).
inline Val merge_duplicates_first_pos(const Val& v) {
  Val r = v;
  if (v.k == Val::Arr) {
    for (auto& e : r.a) e = merge_duplicates_first_pos(e);
  } else if (v.k == Val::Obj) {
    r.o.clear();
    for (auto& kv : v.o) {
      Val child = merge_duplicates_first_pos(kv.second);
      bool found = false;
      for (auto& e : r.o)
        if (e.first == kv.first) {
          e.second = child;
          found = true;
          break;
        }
      if (!found) r.o.push_back({kv.first, child});
    }
  }
  return r;
}
inline bool has_duplicate_keys(const Val& v) {
  bool dup = false;
  v.walk([&](const Val& n) {
    if (n.k == Val::Obj)
      for (size_t i = 0; i < n.o.size(); i++)
        for (size_t j = i + 1; j < n.o.size(); j++)
          if (n.o[i].first == n.o[j].first) dup = true;
  });
  return dup;
}

}  // namespace ref
