// Number reference: decimal literal grammar, exact integer value, strtod/strtold value.
#pragma once
#include <cmath>
#include <cstdlib>
#include <string>

#include "value.hpp"

namespace numref {
using ref::Val;

struct Literal {
  bool neg = false;
  bool has_sign = false;
  std::string int_digits;   // may be empty (".5")
  std::string frac_digits;  // may be empty ("1.")
  bool has_frac = false;    // a '.' is present
  bool has_exp = false;
  bool exp_neg = false;
  std::string exp_digits;
};

inline bool is_digit(char c) { return c >= '0' && c <= '9'; }

// [+-]?(d+(.d*)?|.d+)([eE][+-]?d+)?   -- the documented lenient number spellings
inline bool parse_strict_lenient(const std::string& t, Literal& l) {
  size_t i = 0, n = t.size();
  l = Literal();
  if (i < n && (t[i] == '+' || t[i] == '-')) {
    l.has_sign = true;
    l.neg = t[i] == '-';
    i++;
  }
  while (i < n && is_digit(t[i])) l.int_digits += t[i++];
  if (i < n && t[i] == '.') {
    l.has_frac = true;
    i++;
    while (i < n && is_digit(t[i])) l.frac_digits += t[i++];
  }
  if (l.int_digits.empty() && l.frac_digits.empty()) return false;
  if (i < n && (t[i] == 'e' || t[i] == 'E')) {
    l.has_exp = true;
    i++;
    if (i < n && (t[i] == '+' || t[i] == '-')) {
      l.exp_neg = t[i] == '-';
      i++;
    }
    while (i < n && is_digit(t[i])) l.exp_digits += t[i++];
    if (l.exp_digits.empty()) return false;
  }
  return i == n;
}

// spellings outside the documented grammar that the library's scanner is observed to tolerate
// ( ".", "-.", "1e", "1e+", ".e5" ...): mantissa starts with a digit or '.', every part optional
inline bool tolerated_spelling(const std::string& t) {
  size_t i = 0, n = t.size();
  if (i < n && (t[i] == '+' || t[i] == '-')) i++;
  if (i >= n || !(is_digit(t[i]) || t[i] == '.')) return false;
  while (i < n && is_digit(t[i])) i++;
  if (i < n && t[i] == '.') {
    i++;
    while (i < n && is_digit(t[i])) i++;
  }
  if (i < n && (t[i] == 'e' || t[i] == 'E')) {
    i++;
    if (i < n && (t[i] == '+' || t[i] == '-')) i++;
    while (i < n && is_digit(t[i])) i++;
  }
  return i == n;
}

inline bool integer_class(const Literal& l) { return !l.has_frac && !l.has_exp; }

// exact value of an integer-class literal if it lies in [-2^63, 2^64)
inline bool exact_integer(const Literal& l, Val& out) {
  if (!integer_class(l)) return false;
  size_t i = 0;
  while (i < l.int_digits.size() && l.int_digits[i] == '0') i++;
  std::string d = l.int_digits.substr(i);
  if (d.size() > 20) return false;
  unsigned __int128 v = 0;
  for (char c : d) v = v * 10 + (unsigned)(c - '0');
  if (l.neg) {
    if (v > ((unsigned __int128)1 << 63)) return false;
    out = Val::negmag((uint64_t)v);
    return true;
  }
  if (v > (unsigned __int128)UINT64_MAX) return false;
  out = Val::uint((uint64_t)v);
  return true;
}

inline Val literal_value(const Literal& l, const std::string& tok) {
  Val v;
  if (exact_integer(l, v)) return v;
  return Val::flt(strtod(tok.c_str(), nullptr));
}

inline long double literal_ld(const std::string& tok) { return strtold(tok.c_str(), nullptr); }

// significant digits of the mantissa: from the first non-zero digit to the last digit written
inline size_t significant_digits(const Literal& l) {
  std::string all = l.int_digits + l.frac_digits;
  size_t i = 0;
  while (i < all.size() && all[i] == '0') i++;
  return all.size() - i;
}
inline bool mantissa_is_zero(const Literal& l) {
  for (char c : l.int_digits + l.frac_digits)
    if (c != '0') return false;
  return true;
}

// decimal exponent of the value's leading digit (floor(log10|v|)) computed on the text, so that
// magnitude classes can be decided without floating point; returns false for zero
inline bool decimal_magnitude(const Literal& l, long& mag) {
  std::string all = l.int_digits + l.frac_digits;
  size_t i = 0;
  while (i < all.size() && all[i] == '0') i++;
  if (i == all.size()) return false;
  long e = 0;
  if (l.has_exp) {
    // clamp absurd exponents
    std::string ed = l.exp_digits;
    size_t z = 0;
    while (z + 1 < ed.size() && ed[z] == '0') z++;
    ed = ed.substr(z);
    e = ed.size() > 9 ? 1000000000L : atol(ed.c_str());
    if (l.exp_neg) e = -e;
  }
  mag = (long)l.int_digits.size() - 1 - (long)i + e;
  return true;
}

}  // namespace numref
