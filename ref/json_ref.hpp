// Independent JSON reference: dialect parser with three-valued verdicts, canonical printer.
// Written from RFC 8259 and the documented dialect (DESIGN.md Appendix A), not from the library.
#pragma once
#include <cstdlib>
#include <string>

#include "num_ref.hpp"
#include "value.hpp"

namespace jref {
using ref::Val;

enum Code { OK = 0, EMPTY = 1, INCOMPLETE = 2, INVALID = 3, NOMEM = 4, TOODEEP = 5 };
inline uint32_t bit(Code c) { return 1u << c; }
inline const char* code_name(int c) {
  static const char* n[] = {"Ok", "EmptyInput", "IncompleteInput", "InvalidInput", "NoMemory", "TooDeep"};
  return c >= 0 && c < 6 ? n[c] : "?";
}
inline std::string mask_names(uint32_t m) {
  std::string s;
  for (int i = 0; i < 6; i++)
    if (m & (1u << i)) s += std::string(s.empty() ? "" : "|") + code_name(i);
  return s;
}

struct Dialect {
  bool comments = false;
  bool nan = false;
  bool inf = false;
  bool unicode = true;
};

struct Result {
  uint32_t allowed = 0;      // acceptable return codes
  bool unspecified = false;  // a declared don't-care zone was hit: only safety is judged
  std::string zone;
  bool value_known = false;  // when Ok is allowed: `value` is what the document must denote
  Val value;
  size_t end = 0;            // offset one past the last byte of the top-level value
  bool top_number = false;
  size_t depth = 0;          // deepest container nesting opened
  size_t first_error_at = 0;
  // statistics for non-triviality rules
  bool has_escape = false, has_dup = false, has_nested = false, has_frac = false, has_nonascii = false,
       has_ws = false;
};

class Parser {
 public:
  Parser(const std::string& in, Dialect d, int nesting_limit, size_t max_str)
      : in_(in), d_(d), limit_(nesting_limit), max_str_(max_str) {}

  Result run() {
    Result r;
    Val v;
    int e = value(v, limit_, 0, true);
    r_.depth = maxdepth_;
    r = r_;
    if (zone_set_) {
      r.unspecified = true;
      r.zone = zone_;
      r.allowed = bit(OK) | bit(INVALID) | bit(INCOMPLETE) | bit(EMPTY) | bit(NOMEM) | bit(TOODEEP);
      return r;
    }
    if (e != OK) {
      r.allowed = bit((Code)e) | extra_;
      r.first_error_at = pos_;
      if (extra_) {
        r.unspecified = true;
        r.zone = extra_zone_;
      }
      return r;
    }
    r.end = pos_;
    r.allowed = bit(OK);
    r.value_known = true;
    r.value = ref::merge_duplicates_first_pos(v);
    r.has_dup = ref::has_duplicate_keys(v);
    if (top_number_) {
      r.top_number = true;
      unsigned char c = cur();
      if (c == 0 || blank(c)) {
        // C01: a valid RFC 8259 text may end with whitespace
      } else {
        r.allowed |= bit(INVALID);
        r.unspecified = true;  // both outcomes allowed; value checked when Ok
        r.zone = "top-level-number-then-nonblank";
      }
    }
    return r;
  }

 private:
  unsigned char cur() const { return pos_ < in_.size() ? (unsigned char)in_[pos_] : 0; }
  static bool blank(unsigned char c) { return c == ' ' || c == '\t' || c == '\r' || c == '\n'; }
  static bool digit(unsigned char c) { return c >= '0' && c <= '9'; }
  void zone(const std::string& z) {
    if (!zone_set_) {
      zone_set_ = true;
      zone_ = z;
    }
  }

  int skip_blanks() {
    for (;;) {
      unsigned char c = cur();
      if (c == 0) return found_ ? INCOMPLETE : EMPTY;
      if (blank(c)) {
        r_.has_ws = true;
        pos_++;
        continue;
      }
      if (d_.comments && c == '/') {
        pos_++;
        unsigned char c2 = cur();
        if (c2 == '*') {
          pos_++;
          for (;;) {
            if (cur() == 0) return INCOMPLETE;
            if (cur() == '*' && pos_ + 1 < in_.size() && in_[pos_ + 1] == '/') {
              pos_ += 2;
              break;
            }
            pos_++;
          }
          continue;
        } else if (c2 == '/') {
          pos_++;
          for (;;) {
            if (cur() == 0) {
              if (!found_) {  // "// comment" cut by end of input, nothing else
                extra_ = bit(EMPTY);
                extra_zone_ = "line-comment-at-eof";
              }
              return INCOMPLETE;
            }
            if (cur() == '\n') break;
            pos_++;
          }
          continue;
        } else {
          if (c2 == 0) {
            extra_ = bit(INCOMPLETE);
            extra_zone_ = "slash-at-eof";
          }
          return INVALID;
        }
      }
      found_ = true;
      return OK;
    }
  }

  int value(Val& out, int budget, size_t depth, bool top) {
    int e = skip_blanks();
    if (e) return e;
    unsigned char c = cur();
    if (c == '[') return array(out, budget, depth);
    if (c == '{') return object(out, budget, depth);
    if (c == '"' || c == '\'') {
      std::string s;
      e = quoted(s);
      if (e) return e;
      out = Val::str(s);
      return OK;
    }
    if (c == 't') {
      e = keyword("true");
      out = Val::boolean(true);
      return e;
    }
    if (c == 'f') {
      e = keyword("false");
      out = Val::boolean(false);
      return e;
    }
    if (c == 'n') {
      e = keyword("null");
      out = Val::null();
      return e;
    }
    if (top) top_number_ = true;
    return number(out);
  }

  int keyword(const char* k) {
    for (; *k; k++) {
      unsigned char c = cur();
      if (c == 0) return INCOMPLETE;
      if (c != (unsigned char)*k) return INVALID;
      pos_++;
    }
    return OK;
  }

  int array(Val& out, int budget, size_t depth) {
    if (budget <= 0) return TOODEEP;
    if (depth + 1 > maxdepth_) maxdepth_ = depth + 1;
    if (depth > 0) r_.has_nested = true;
    pos_++;
    out = Val::arr();
    int e = skip_blanks();
    if (e) return e;
    if (cur() == ']') {
      pos_++;
      return OK;
    }
    for (;;) {
      Val el;
      e = value(el, budget - 1, depth + 1, false);
      if (e) return e;
      out.a.push_back(std::move(el));
      e = skip_blanks();
      if (e) return e;
      if (cur() == ']') {
        pos_++;
        return OK;
      }
      if (cur() != ',') return INVALID;
      pos_++;
    }
  }

  static bool unquoted_char(unsigned char c) {
    return (c >= '0' && c <= '9') || (c >= '_' && c <= 'z') || (c >= 'A' && c <= 'Z');
  }

  int object(Val& out, int budget, size_t depth) {
    if (budget <= 0) return TOODEEP;
    if (depth + 1 > maxdepth_) maxdepth_ = depth + 1;
    if (depth > 0) r_.has_nested = true;
    pos_++;
    out = Val::obj();
    int e = skip_blanks();
    if (e) return e;
    if (cur() == '}') {
      pos_++;
      return OK;
    }
    for (;;) {
      std::string key;
      unsigned char c = cur();
      if (c == '"' || c == '\'') {
        e = quoted(key);
        if (e) return e;
      } else {
        size_t start = pos_;
        while (unquoted_char(cur())) pos_++;
        key = in_.substr(start, pos_ - start);
        if (key.empty()) return INVALID;
        if (key.size() > max_str_) return NOMEM;
        // documented: identifier keys; anything else the scanner tolerates is a zone
        bool ident = !digit((unsigned char)key[0]);
        for (unsigned char k : key)
          if (k == '`') ident = false;
        if (!ident) zone("unquoted-key-not-identifier");
      }
      e = skip_blanks();
      if (e) return e;
      if (cur() != ':') return INVALID;
      pos_++;
      Val el;
      e = value(el, budget - 1, depth + 1, false);
      if (e) return e;
      out.o.push_back({key, std::move(el)});
      e = skip_blanks();
      if (e) return e;
      if (cur() == '}') {
        pos_++;
        return OK;
      }
      if (cur() != ',') return INVALID;
      pos_++;
      e = skip_blanks();
      if (e) return e;
    }
  }

  static int hexval(unsigned char c) {
    if (c >= '0' && c <= '9') return c - '0';
    if (c >= 'a' && c <= 'f') return c - 'a' + 10;
    if (c >= 'A' && c <= 'F') return c - 'A' + 10;
    return -1;
  }
  static void utf8(std::string& o, uint32_t cp) {
    if (cp < 0x80) {
      o += (char)cp;
    } else if (cp < 0x800) {
      o += (char)(0xC0 | (cp >> 6));
      o += (char)(0x80 | (cp & 0x3F));
    } else if (cp < 0x10000) {
      o += (char)(0xE0 | (cp >> 12));
      o += (char)(0x80 | ((cp >> 6) & 0x3F));
      o += (char)(0x80 | (cp & 0x3F));
    } else {
      o += (char)(0xF0 | (cp >> 18));
      o += (char)(0x80 | ((cp >> 12) & 0x3F));
      o += (char)(0x80 | ((cp >> 6) & 0x3F));
      o += (char)(0x80 | (cp & 0x3F));
    }
  }

  int quoted(std::string& out) {
    unsigned char stop = cur();
    pos_++;
    bool pending_high = false;
    uint32_t high = 0;
    for (;;) {
      unsigned char c = cur();
      if (c == 0) return INCOMPLETE;
      pos_++;
      if (c == stop) break;
      if (c >= 0x80) r_.has_nonascii = true;
      if (c != '\\') {
        if (pending_high) zone("lone-surrogate");
        out += (char)c;
        continue;
      }
      r_.has_escape = true;
      unsigned char e = cur();
      if (e == 0) return INCOMPLETE;
      if (e == 'u') {
        if (!d_.unicode) {  // kept verbatim: backslash, then 'u' and the rest as ordinary bytes
          out += '\\';
          continue;
        }
        pos_++;
        uint32_t cu = 0;
        for (int i = 0; i < 4; i++) {
          unsigned char h = cur();
          if (h == 0) return INCOMPLETE;
          int hv = hexval(h);
          if (hv < 0) return INVALID;
          cu = (cu << 4) | (uint32_t)hv;
          pos_++;
        }
        if (cu >= 0xD800 && cu < 0xDC00) {
          if (pending_high) zone("lone-surrogate");
          pending_high = true;
          high = cu;
          continue;
        }
        if (cu >= 0xDC00 && cu < 0xE000) {
          if (!pending_high) {
            zone("lone-surrogate");
            continue;
          }
          pending_high = false;
          utf8(out, 0x10000 + (((high & 0x3FF) << 10) | (cu & 0x3FF)));
          continue;
        }
        if (pending_high) zone("lone-surrogate");
        pending_high = false;
        utf8(out, cu);
        continue;
      }
      if (pending_high) zone("lone-surrogate");
      char r = 0;
      switch (e) {
        case '"': r = '"'; break;
        case '\\': r = '\\'; break;
        case '/': r = '/'; break;
        case '\'': r = '\''; break;
        case 'b': r = '\b'; break;
        case 'f': r = '\f'; break;
        case 'n': r = '\n'; break;
        case 'r': r = '\r'; break;
        case 't': r = '\t'; break;
        default: return INVALID;
      }
      pos_++;
      out += r;
    }
    if (pending_high) zone("lone-surrogate");
    if (out.size() > max_str_) return NOMEM;
    return OK;
  }

  bool num_char(unsigned char c) const {
    if (digit(c) || c == '+' || c == '-' || c == '.') return true;
    if (d_.nan || d_.inf) return (c >= 'A' && c <= 'Z') || (c >= 'a' && c <= 'z');
    return c == 'e' || c == 'E';
  }

  int number(Val& out) {
    size_t start = pos_;
    while (num_char(cur()) && pos_ - start < 63) pos_++;
    std::string tok = in_.substr(start, pos_ - start);
    if (tok.size() == 63 && num_char(cur())) {
      zone("number-token-longer-than-63");
      return OK;
    }
    bool at_eof = cur() == 0;
    if (tok.empty()) return INVALID;  // a byte that cannot start a value
    numref::Literal lit;
    if (numref::parse_strict_lenient(tok, lit)) {
      if (lit.has_frac || lit.has_exp) r_.has_frac = true;
      out = numref::literal_value(lit, tok);
      if (out.k == Val::Flt) out.s = tok;  // the literal itself: comparators judge the boundary cases on it
      return OK;
    }
    // NaN / Infinity
    std::string body = tok;
    bool neg = false;
    if (!body.empty() && (body[0] == '-' || body[0] == '+')) {
      neg = body[0] == '-';
      body = body.substr(1);
    }
    if (d_.nan && body == "NaN") {
      out = Val::flt(NAN);
      return OK;
    }
    if (d_.inf && body == "Infinity") {
      out = Val::flt(neg ? -INFINITY : INFINITY);
      return OK;
    }
    if (!body.empty()) {
      unsigned char b0 = (unsigned char)body[0];
      if ((d_.nan && (b0 == 'n' || b0 == 'N')) || (d_.inf && (b0 == 'i' || b0 == 'I'))) {
        zone("noncanonical-nan-inf-spelling");
        return OK;
      }
    }
    if (numref::tolerated_spelling(tok)) {
      zone("lenient-number-spelling");
      return OK;
    }
    if (at_eof) {
      extra_ = bit(INCOMPLETE);
      extra_zone_ = "invalid-number-token-at-eof";
    }
    return INVALID;
  }

  const std::string& in_;
  Dialect d_;
  int limit_;
  size_t max_str_;
  size_t pos_ = 0;
  bool found_ = false;
  bool top_number_ = false;
  bool zone_set_ = false;
  std::string zone_;
  uint32_t extra_ = 0;
  std::string extra_zone_;
  size_t maxdepth_ = 0;
  Result r_;
};

inline Result parse(const std::string& in, Dialect d = Dialect(), int nesting_limit = 10,
                    size_t max_str = 65535) {
  Parser p(in, d, nesting_limit, max_str);
  return p.run();
}

// ---------------------------------------------------------------- canonical printer
inline void print_string(const std::string& s, std::string& o) {
  o += '"';
  for (unsigned char c : s) {
    switch (c) {
      case '"': o += "\\\""; break;
      case '\\': o += "\\\\"; break;
      case '\b': o += "\\b"; break;
      case '\f': o += "\\f"; break;
      case '\n': o += "\\n"; break;
      case '\r': o += "\\r"; break;
      case '\t': o += "\\t"; break;
      case 0: o += "\\u0000"; break;
      default: o += (char)c;
    }
  }
  o += '"';
}

// Compact canonical text of a float-free value; returns false when a float is met.
inline bool print(const Val& v, std::string& o) {
  switch (v.k) {
    case Val::Null: o += "null"; return true;
    case Val::Bool: o += v.b ? "true" : "false"; return true;
    case Val::Int: {
      if (v.neg) o += '-';
      o += std::to_string((unsigned long long)v.mag);
      return true;
    }
    case Val::Flt: return false;
    case Val::Str: print_string(v.s, o); return true;
    case Val::Raw: o += v.s; return true;
    case Val::Arr: {
      o += '[';
      bool ok = true;
      for (size_t i = 0; i < v.a.size(); i++) {
        if (i) o += ',';
        ok = print(v.a[i], o) && ok;
      }
      o += ']';
      return ok;
    }
    case Val::Obj: {
      o += '{';
      bool ok = true;
      for (size_t i = 0; i < v.o.size(); i++) {
        if (i) o += ',';
        print_string(v.o[i].first, o);
        o += ':';
        ok = print(v.o[i].second, o) && ok;
      }
      o += '}';
      return ok;
    }
  }
  return false;
}

inline bool has_float(const Val& v) {
  bool f = false;
  v.walk([&](const Val& n) {
    if (n.k == Val::Flt) f = true;
  });
  return f;
}
inline bool has_raw(const Val& v) {
  bool f = false;
  v.walk([&](const Val& n) {
    if (n.k == Val::Raw) f = true;
  });
  return f;
}

// remove whitespace outside string literals (for pretty vs compact comparison)
inline std::string strip_ws(const std::string& t) {
  std::string o;
  bool in_str = false;
  for (size_t i = 0; i < t.size(); i++) {
    char c = t[i];
    if (in_str) {
      o += c;
      if (c == '\\' && i + 1 < t.size()) {
        o += t[++i];
      } else if (c == '"') {
        in_str = false;
      }
    } else {
      if (c == ' ' || c == '\t' || c == '\r' || c == '\n') continue;
      if (c == '"') in_str = true;
      o += c;
    }
  }
  return o;
}

}  // namespace jref
