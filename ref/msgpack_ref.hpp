// Independent MessagePack reference written from the specification:
// encoder with a generated width choice per item, strict decoder for exactly one object.
#pragma once
#include <cstring>
#include <string>

#include "value.hpp"

namespace mref {
using ref::Val;

inline void be(std::string& o, uint64_t v, int bytes) {
  for (int i = bytes - 1; i >= 0; i--) o += (char)((v >> (8 * i)) & 0xFF);
}

// ---- bin / ext payload helpers: the document model keeps bin/ext as raw MessagePack bytes
inline std::string bin_bytes(const std::string& data, int width /*0 minimal,1,2,4*/) {
  std::string o;
  size_t n = data.size();
  if (width == 0) width = n < 256 ? 1 : n < 65536 ? 2 : 4;
  if (width == 1) {
    o += (char)0xC4;
    be(o, n, 1);
  } else if (width == 2) {
    o += (char)0xC5;
    be(o, n, 2);
  } else {
    o += (char)0xC6;
    be(o, n, 4);
  }
  return o + data;
}
inline std::string ext_bytes(int8_t type, const std::string& data, int width /*0 = minimal(fixext if possible)*/) {
  std::string o;
  size_t n = data.size();
  if (width == 0) {
    if (n == 1 || n == 2 || n == 4 || n == 8 || n == 16) {
      o += (char)(n == 1 ? 0xD4 : n == 2 ? 0xD5 : n == 4 ? 0xD6 : n == 8 ? 0xD7 : 0xD8);
      o += (char)type;
      return o + data;
    }
    width = n < 256 ? 1 : n < 65536 ? 2 : 4;
  }
  o += (char)(width == 1 ? 0xC7 : width == 2 ? 0xC8 : 0xC9);
  be(o, n, width);
  o += (char)type;
  return o + data;
}

// width chooser: returns a number in [0, n) ; the encoder asks it for every item.
struct Widths {
  virtual ~Widths() {}
  virtual uint64_t choose(uint64_t n) { return 0; }  // 0 = minimal encoding
};

struct EncStats {
  size_t nonminimal = 0;
  size_t items = 0;
  bool boundary = false;
};

inline void encode_uint(uint64_t v, std::string& o, Widths& w, EncStats& st) {
  // legal encodings: fixint (<=127), uint8 (<=255), uint16, uint32, uint64, and signed
  // int8/16/32/64 when the value fits the positive range
  int min = v <= 127 ? 0 : v <= 0xFF ? 1 : v <= 0xFFFF ? 2 : v <= 0xFFFFFFFFull ? 3 : 4;
  int choice = min + (int)w.choose((uint64_t)(5 - min));
  bool use_signed = false;
  if (choice > 0 && w.choose(4) == 3) {
    // signed family: needs v <= max of that width
    uint64_t smax = choice == 1 ? 0x7F : choice == 2 ? 0x7FFF : choice == 3 ? 0x7FFFFFFF : 0x7FFFFFFFFFFFFFFFull;
    if (v <= smax) use_signed = true;
  }
  if (choice != min || use_signed) st.nonminimal++;
  switch (choice) {
    case 0: o += (char)v; break;
    case 1: o += (char)(use_signed ? 0xD0 : 0xCC); be(o, v, 1); break;
    case 2: o += (char)(use_signed ? 0xD1 : 0xCD); be(o, v, 2); break;
    case 3: o += (char)(use_signed ? 0xD2 : 0xCE); be(o, v, 4); break;
    default: o += (char)(use_signed ? 0xD3 : 0xCF); be(o, v, 8); break;
  }
}

inline void encode_neg(uint64_t mag, std::string& o, Widths& w, EncStats& st) {
  // value = -mag, mag in [1, 2^63]
  uint64_t tc = (uint64_t)0 - mag;  // two's complement
  int min = mag <= 32 ? 0 : mag <= 0x80 ? 1 : mag <= 0x8000 ? 2 : mag <= 0x80000000ull ? 3 : 4;
  int choice = min + (int)w.choose((uint64_t)(5 - min));
  if (choice != min) st.nonminimal++;
  switch (choice) {
    case 0: o += (char)(tc & 0xFF); break;
    case 1: o += (char)0xD0; be(o, tc & 0xFF, 1); break;
    case 2: o += (char)0xD1; be(o, tc & 0xFFFF, 2); break;
    case 3: o += (char)0xD2; be(o, tc & 0xFFFFFFFFull, 4); break;
    default: o += (char)0xD3; be(o, tc, 8); break;
  }
}

inline void encode_str(const std::string& s, std::string& o, Widths& w, EncStats& st) {
  size_t n = s.size();
  int min = n <= 31 ? 0 : n <= 0xFF ? 1 : n <= 0xFFFF ? 2 : 3;
  int choice = min + (int)w.choose((uint64_t)(4 - min));
  if (choice != min) st.nonminimal++;
  if (n == 31 || n == 32 || n == 255 || n == 256 || n == 65535 || n == 65536) st.boundary = true;
  switch (choice) {
    case 0: o += (char)(0xA0 | n); break;
    case 1: o += (char)0xD9; be(o, n, 1); break;
    case 2: o += (char)0xDA; be(o, n, 2); break;
    default: o += (char)0xDB; be(o, n, 4); break;
  }
  o += s;
}

struct EncOpts {
  bool floats_as_f32_when_exact = true;  // generated choice otherwise
};

inline void encode(const Val& v, std::string& o, Widths& w, EncStats& st) {
  st.items++;
  switch (v.k) {
    case Val::Null: o += (char)0xC0; break;
    case Val::Bool: o += (char)(v.b ? 0xC3 : 0xC2); break;
    case Val::Int:
      if (v.neg) encode_neg(v.mag, o, w, st);
      else encode_uint(v.mag, o, w, st);
      break;
    case Val::Flt: {
      bool can32 = v.is_f32();
      bool use32 = can32 && w.choose(2) == 0;
      if (can32 && !use32) st.nonminimal++;
      if (use32) {
        float f = (float)v.d;
        uint32_t b;
        memcpy(&b, &f, 4);
        o += (char)0xCA;
        be(o, b, 4);
      } else {
        uint64_t b;
        memcpy(&b, &v.d, 8);
        o += (char)0xCB;
        be(o, b, 8);
      }
      break;
    }
    case Val::Str: encode_str(v.s, o, w, st); break;
    case Val::Raw: o += v.s; break;  // already MessagePack bytes (bin/ext)
    case Val::Arr: {
      size_t n = v.a.size();
      int min = n <= 15 ? 0 : n <= 0xFFFF ? 1 : 2;
      int choice = min + (int)w.choose((uint64_t)(3 - min));
      if (choice != min) st.nonminimal++;
      if (n == 15 || n == 16 || n == 65535 || n == 65536) st.boundary = true;
      if (choice == 0) o += (char)(0x90 | n);
      else if (choice == 1) { o += (char)0xDC; be(o, n, 2); }
      else { o += (char)0xDD; be(o, n, 4); }
      for (auto& e : v.a) encode(e, o, w, st);
      break;
    }
    case Val::Obj: {
      size_t n = v.o.size();
      int min = n <= 15 ? 0 : n <= 0xFFFF ? 1 : 2;
      int choice = min + (int)w.choose((uint64_t)(3 - min));
      if (choice != min) st.nonminimal++;
      if (n == 15 || n == 16 || n == 65535 || n == 65536) st.boundary = true;
      if (choice == 0) o += (char)(0x80 | n);
      else if (choice == 1) { o += (char)0xDE; be(o, n, 2); }
      else { o += (char)0xDF; be(o, n, 4); }
      for (auto& kv : v.o) {
        encode_str(kv.first, o, w, st);
        encode(kv.second, o, w, st);
      }
      break;
    }
  }
}

// ------------------------------------------------------------------ decoder
enum DStatus { D_OK, D_INCOMPLETE, D_INVALID_C1, D_NONSTRING_KEY, D_TOODEEP };

struct Decoder {
  const std::string& in;
  size_t pos = 0;
  int limit;
  size_t max_depth = 0;
  bool header_cut = false;  // truncation fell inside a header (for non-triviality)
  Decoder(const std::string& s, int nesting_limit) : in(s), limit(nesting_limit) {}

  bool need(size_t n) const { return in.size() - pos >= n; }
  uint64_t rd(int bytes) {
    uint64_t v = 0;
    for (int i = 0; i < bytes; i++) v = (v << 8) | (unsigned char)in[pos++];
    return v;
  }

  DStatus str_body(size_t n, std::string& out) {
    if (!need(n)) {
      pos = in.size();
      return D_INCOMPLETE;
    }
    out = in.substr(pos, n);
    pos += n;
    return D_OK;
  }

  DStatus key(std::string& out) {
    if (!need(1)) return D_INCOMPLETE;
    unsigned char c = (unsigned char)in[pos++];
    size_t n;
    if ((c & 0xE0) == 0xA0) n = c & 0x1F;
    else if (c == 0xD9) { if (!need(1)) return D_INCOMPLETE; n = (size_t)rd(1); }
    else if (c == 0xDA) { if (!need(2)) return D_INCOMPLETE; n = (size_t)rd(2); }
    else if (c == 0xDB) { if (!need(4)) return D_INCOMPLETE; n = (size_t)rd(4); }
    else return c == 0xC1 ? D_INVALID_C1 : D_NONSTRING_KEY;
    return str_body(n, out);
  }

  DStatus value(Val& out, int budget, size_t depth) {
    if (!need(1)) return D_INCOMPLETE;
    size_t start = pos;
    unsigned char c = (unsigned char)in[pos++];
    if (c <= 0x7F) { out = Val::uint(c); return D_OK; }
    if (c >= 0xE0) { out = Val::sint((int8_t)c); return D_OK; }
    if ((c & 0xE0) == 0xA0) { out = Val::str(""); return str_body(c & 0x1F, out.s); }
    if ((c & 0xF0) == 0x90) return array(out, c & 0x0F, budget, depth);
    if ((c & 0xF0) == 0x80) return map(out, c & 0x0F, budget, depth);
    switch (c) {
      case 0xC0: out = Val::null(); return D_OK;
      case 0xC1: return D_INVALID_C1;
      case 0xC2: out = Val::boolean(false); return D_OK;
      case 0xC3: out = Val::boolean(true); return D_OK;
      case 0xCC: if (!need(1)) return D_INCOMPLETE; out = Val::uint(rd(1)); return D_OK;
      case 0xCD: if (!need(2)) return D_INCOMPLETE; out = Val::uint(rd(2)); return D_OK;
      case 0xCE: if (!need(4)) return D_INCOMPLETE; out = Val::uint(rd(4)); return D_OK;
      case 0xCF: if (!need(8)) return D_INCOMPLETE; out = Val::uint(rd(8)); return D_OK;
      case 0xD0: if (!need(1)) return D_INCOMPLETE; out = Val::sint((int8_t)rd(1)); return D_OK;
      case 0xD1: if (!need(2)) return D_INCOMPLETE; out = Val::sint((int16_t)rd(2)); return D_OK;
      case 0xD2: if (!need(4)) return D_INCOMPLETE; out = Val::sint((int32_t)rd(4)); return D_OK;
      case 0xD3: if (!need(8)) return D_INCOMPLETE; out = Val::sint((int64_t)rd(8)); return D_OK;
      case 0xCA: {
        if (!need(4)) return D_INCOMPLETE;
        uint32_t b = (uint32_t)rd(4);
        float f;
        memcpy(&f, &b, 4);
        out = Val::flt((double)f);
        return D_OK;
      }
      case 0xCB: {
        if (!need(8)) return D_INCOMPLETE;
        uint64_t b = rd(8);
        double d;
        memcpy(&d, &b, 8);
        out = Val::flt(d);
        return D_OK;
      }
      case 0xD9: case 0xDA: case 0xDB: {
        int w = c == 0xD9 ? 1 : c == 0xDA ? 2 : 4;
        if (!need((size_t)w)) { header_cut = true; return D_INCOMPLETE; }
        size_t n = (size_t)rd(w);
        out = Val::str("");
        return str_body(n, out.s);
      }
      case 0xDC: case 0xDD: {
        int w = c == 0xDC ? 2 : 4;
        if (!need((size_t)w)) { header_cut = true; return D_INCOMPLETE; }
        return array(out, (size_t)rd(w), budget, depth);
      }
      case 0xDE: case 0xDF: {
        int w = c == 0xDE ? 2 : 4;
        if (!need((size_t)w)) { header_cut = true; return D_INCOMPLETE; }
        return map(out, (size_t)rd(w), budget, depth);
      }
      case 0xC4: case 0xC5: case 0xC6: case 0xC7: case 0xC8: case 0xC9: {
        bool ext = c >= 0xC7;
        int w = (c == 0xC4 || c == 0xC7) ? 1 : (c == 0xC5 || c == 0xC8) ? 2 : 4;
        if (!need((size_t)w)) { header_cut = true; return D_INCOMPLETE; }
        size_t n = (size_t)rd(w) + (ext ? 1 : 0);
        if (!need(n)) { pos = in.size(); return D_INCOMPLETE; }
        pos += n;
        out = Val::raw(in.substr(start, pos - start));
        return D_OK;
      }
      case 0xD4: case 0xD5: case 0xD6: case 0xD7: case 0xD8: {
        size_t n = ((size_t)1 << (c - 0xD4)) + 1;
        if (!need(n)) { pos = in.size(); return D_INCOMPLETE; }
        pos += n;
        out = Val::raw(in.substr(start, pos - start));
        return D_OK;
      }
    }
    return D_INVALID_C1;  // unreachable: every code is handled
  }

  DStatus array(Val& out, size_t n, int budget, size_t depth) {
    if (budget <= 0) return D_TOODEEP;
    if (depth + 1 > max_depth) max_depth = depth + 1;
    out = Val::arr();
    for (size_t i = 0; i < n; i++) {
      Val e;
      DStatus s = value(e, budget - 1, depth + 1);
      if (s != D_OK) return s;
      out.a.push_back(std::move(e));
    }
    return D_OK;
  }
  DStatus map(Val& out, size_t n, int budget, size_t depth) {
    if (budget <= 0) return D_TOODEEP;
    if (depth + 1 > max_depth) max_depth = depth + 1;
    out = Val::obj();
    for (size_t i = 0; i < n; i++) {
      std::string k;
      DStatus s = key(k);
      if (s != D_OK) return s;
      Val e;
      s = value(e, budget - 1, depth + 1);
      if (s != D_OK) return s;
      out.o.push_back({k, std::move(e)});
    }
    return D_OK;
  }
};

struct DResult {
  DStatus status;
  Val value;
  size_t consumed;
  size_t max_depth;
};

inline DResult decode(const std::string& bytes, int nesting_limit = 1000) {
  Decoder d(bytes, nesting_limit);
  DResult r;
  r.status = d.value(r.value, nesting_limit, 0);
  r.consumed = d.pos;
  r.max_depth = d.max_depth;
  return r;
}

}  // namespace mref
