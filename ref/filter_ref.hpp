// Projection of a value onto a filter value, written from the sentence of property C11.
#pragma once
#include "value.hpp"

namespace fref {
using ref::Val;

// "true-ish": what a filter entry must be for the member/element to be kept at all
inline bool truthy(const Val* f) {
  if (!f) return false;
  switch (f->k) {
    case Val::Null: return false;
    case Val::Bool: return f->b;
    case Val::Int: return f->mag != 0;
    case Val::Flt: return f->d != 0;
    default: return true;  // strings, raw, arrays and objects (even empty)
  }
}
inline bool is_true(const Val* f) { return f && f->k == Val::Bool && f->b; }

// don't-care zones of the filter itself (decided on the filter, not on what the library did)
inline const char* filter_zone(const Val& f) {
  const char* z = nullptr;
  f.walk([&](const Val& n) {
    if (n.k == Val::Int && !n.neg && n.mag == 1) z = "filter-entry-number-1";
    if (n.k == Val::Flt && n.d == 1.0) z = "filter-entry-number-1";
    if (n.k == Val::Raw) z = "filter-with-raw";
    if (n.k == Val::Obj) {
      bool star = false, explicit_null = false;
      for (size_t i = 0; i < n.o.size(); i++) {
        if (n.o[i].first == "*") star = true;
        if (n.o[i].second.k == Val::Null) explicit_null = true;
        if (n.o[i].first.find('\0') != std::string::npos) z = "filter-key-with-nul";
        for (size_t j = i + 1; j < n.o.size(); j++)
          if (n.o[i].first == n.o[j].first) z = "filter-duplicate-key";
      }
      if (star && explicit_null) z = "filter-explicit-null-and-wildcard";
    }
  });
  return z;
}

// value kept under filter f (f is truthy at this position, or it is the top level)
inline Val project(const Val& v, const Val* f) {
  if (!truthy(f)) return Val::null();
  if (is_true(f)) return v;
  if (v.k == Val::Arr) {
    if (f->k != Val::Arr) return Val::null();  // kind not admitted
    const Val* ef = f->a.empty() ? nullptr : &f->a[0];
    Val r = Val::arr();
    if (!truthy(ef)) return r;
    for (auto& e : v.a) r.a.push_back(project(e, ef));
    return r;
  }
  if (v.k == Val::Obj) {
    if (f->k != Val::Obj) return Val::null();
    Val r = Val::obj();
    for (auto& kv : v.o) {
      const Val* entry = f->find(kv.first);
      if (!entry) entry = f->find("*");
      if (!truthy(entry)) continue;
      r.o.push_back({kv.first, project(kv.second, entry)});
    }
    return r;
  }
  return Val::null();  // scalars are only admitted by `true`
}

}  // namespace fref
